#!/bin/sh
# Builds the framework once, offline: dxmon (build A, hooks on), the guard-off proc-macro (build B) and dxrt.
set -e
HERE="$(cd "$(dirname "$0")" && pwd)"
export CARGO_NET_OFFLINE=true
export PYTHONDONTWRITEBYTECODE=1
cd "$HERE"
python3 - <<'PY'
import sys
sys.path.insert(0, ".")
from dx import common as C
C.build_a(); C.build_b(); C.build_rt()
print("setup ok")
PY
