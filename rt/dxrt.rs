//! dxrt — probe types, recorders and the event log shared by all generated programs.
//! Hand-written, std only.  Nothing in here uses derive-ex.
#![allow(dead_code, clippy::all)]

use std::cell::RefCell;
use std::cmp::Ordering;
use std::fmt::Write as _;
use std::hash::{Hash, Hasher};
use std::io::Write as _;
use std::marker::PhantomData;

// ---------------------------------------------------------------------------
// event log (JSON lines on stdout)
// ---------------------------------------------------------------------------

thread_local! {
    static CASE: RefCell<String> = RefCell::new(String::new());
    static OUT: RefCell<Vec<u8>> = RefCell::new(Vec::with_capacity(1 << 20));
    static TRACE: RefCell<Vec<String>> = RefCell::new(Vec::new());
    static LIVE: RefCell<(i64, i64)> = RefCell::new((0, 0)); // (constructed, dropped)
    static PANIC_MSG: RefCell<String> = RefCell::new(String::new());
}

pub enum J {
    I(i64),
    B(bool),
    S(String),
    L(Vec<String>),
}
impl From<i64> for J { fn from(v: i64) -> J { J::I(v) } }
impl From<i32> for J { fn from(v: i32) -> J { J::I(v as i64) } }
impl From<u8> for J { fn from(v: u8) -> J { J::I(v as i64) } }
impl From<u32> for J { fn from(v: u32) -> J { J::I(v as i64) } }
impl From<usize> for J { fn from(v: usize) -> J { J::I(v as i64) } }
impl From<bool> for J { fn from(v: bool) -> J { J::B(v) } }
impl From<String> for J { fn from(v: String) -> J { J::S(v) } }
impl From<&str> for J { fn from(v: &str) -> J { J::S(v.to_string()) } }
impl From<&String> for J { fn from(v: &String) -> J { J::S(v.clone()) } }
impl From<Vec<String>> for J { fn from(v: Vec<String>) -> J { J::L(v) } }

fn esc(s: &str, out: &mut String) {
    out.push('"');
    for c in s.chars() {
        match c {
            '"' => out.push_str("\\\""),
            '\\' => out.push_str("\\\\"),
            '\n' => out.push_str("\\n"),
            '\r' => out.push_str("\\r"),
            '\t' => out.push_str("\\t"),
            c if (c as u32) < 0x20 => {
                let _ = write!(out, "\\u{:04x}", c as u32);
            }
            c => out.push(c),
        }
    }
    out.push('"');
}

pub fn emit(kind: &str, fields: Vec<(&str, J)>) {
    let mut s = String::with_capacity(128);
    s.push_str("{\"c\":");
    CASE.with(|c| esc(&c.borrow(), &mut s));
    s.push_str(",\"k\":");
    esc(kind, &mut s);
    for (k, v) in fields {
        s.push(',');
        esc(k, &mut s);
        s.push(':');
        match v {
            J::I(i) => {
                let _ = write!(s, "{i}");
            }
            J::B(b) => s.push_str(if b { "true" } else { "false" }),
            J::S(x) => esc(&x, &mut s),
            J::L(l) => {
                s.push('[');
                for (i, x) in l.iter().enumerate() {
                    if i > 0 {
                        s.push(',');
                    }
                    esc(x, &mut s);
                }
                s.push(']');
            }
        }
    }
    s.push_str("}\n");
    OUT.with(|o| {
        let mut o = o.borrow_mut();
        o.extend_from_slice(s.as_bytes());
        if o.len() > (1 << 20) {
            let _ = std::io::stdout().write_all(&o);
            o.clear();
        }
    });
}

#[macro_export]
macro_rules! ev {
    ($kind:expr $(, $k:expr => $v:expr)* $(,)?) => {
        $crate::emit($kind, vec![$(($k, $crate::J::from($v))),*])
    };
}

pub fn init() {
    std::panic::set_hook(Box::new(|info| {
        let msg = if let Some(s) = info.payload().downcast_ref::<&str>() {
            s.to_string()
        } else if let Some(s) = info.payload().downcast_ref::<String>() {
            s.clone()
        } else {
            "<panic>".to_string()
        };
        PANIC_MSG.with(|p| *p.borrow_mut() = msg);
    }));
}

pub fn run_case(name: &str, f: fn()) {
    CASE.with(|c| *c.borrow_mut() = name.to_string());
    TRACE.with(|t| t.borrow_mut().clear());
    emit("start", vec![]);
    let r = std::panic::catch_unwind(f);
    match r {
        Ok(()) => emit("end", vec![]),
        Err(_) => {
            let m = PANIC_MSG.with(|p| p.borrow().clone());
            emit("panic", vec![("msg", J::S(m))]);
        }
    }
    CASE.with(|c| c.borrow_mut().clear());
}

pub fn finish() {
    CASE.with(|c| c.borrow_mut().clear());
    emit("finish", vec![]);
    OUT.with(|o| {
        let mut o = o.borrow_mut();
        let _ = std::io::stdout().write_all(&o);
        o.clear();
    });
    let _ = std::io::stdout().flush();
}

// ---------------------------------------------------------------------------
// call trace (clone / clone_from / drop / operator calls)
// ---------------------------------------------------------------------------

pub fn trace(s: String) {
    TRACE.with(|t| t.borrow_mut().push(s));
}
pub fn take_trace() -> Vec<String> {
    TRACE.with(|t| std::mem::take(&mut *t.borrow_mut()))
}
pub fn live() -> (i64, i64) {
    LIVE.with(|l| *l.borrow())
}

pub fn ord_c(o: Ordering) -> char {
    match o {
        Ordering::Less => 'L',
        Ordering::Equal => 'E',
        Ordering::Greater => 'G',
    }
}
pub fn pord_c(o: Option<Ordering>) -> char {
    match o {
        None => 'N',
        Some(o) => ord_c(o),
    }
}
pub fn bool_c(b: bool) -> char {
    if b { '1' } else { '0' }
}

// ---------------------------------------------------------------------------
// V: totally ordered small value; P: partially ordered with a NaN-like value; PE: PartialEq only
// ---------------------------------------------------------------------------

#[derive(Clone, Copy, Debug, Default, PartialEq, Eq, PartialOrd, Ord, Hash)]
pub struct V(pub u8);

pub const NAN: u8 = 9;

/// Partially ordered: `P(9)` is NaN-like (not equal to itself, unordered with everything).
#[derive(Clone, Copy, Debug, Default)]
pub struct P(pub u8);
impl PartialEq for P {
    fn eq(&self, o: &P) -> bool {
        self.0 != NAN && o.0 != NAN && self.0 == o.0
    }
}
impl PartialOrd for P {
    fn partial_cmp(&self, o: &P) -> Option<Ordering> {
        if self.0 == NAN || o.0 == NAN { None } else { Some(self.0.cmp(&o.0)) }
    }
}
impl Hash for P {
    fn hash<H: Hasher>(&self, h: &mut H) {
        h.write_u8(self.0)
    }
}
impl P {
    pub fn total_cmp(&self, o: &P) -> Ordering {
        self.0.cmp(&o.0)
    }
    pub fn total_eq(&self, o: &P) -> bool {
        self.0 == o.0
    }
}

/// PartialEq + PartialOrd + Hash, but never Eq / Ord (float-like for C17).
#[derive(Clone, Copy, Debug, Default, PartialEq, PartialOrd, Hash)]
pub struct PE(pub u8);

// One shared key for C02 (all key/by functions of a field express this key).
pub fn k(v: &V) -> u8 { v.0 / 2 }
pub fn by_cmp(a: &V, b: &V) -> Ordering { k(a).cmp(&k(b)) }
/// like `by_pcmp`, but V(5) is incomparable with everything including itself (only used where `==` is defined through it too)
pub fn by_pcmp_nan(a: &V, b: &V) -> Option<Ordering> { if a.0 == 5 || b.0 == 5 { None } else { Some(k(a).cmp(&k(b))) } }
pub fn by_pcmp(a: &V, b: &V) -> Option<Ordering> { Some(k(a).cmp(&k(b))) }
pub fn by_eq(a: &V, b: &V) -> bool { k(a) == k(b) }
pub fn by_hash<H: Hasher>(a: &V, h: &mut H) { k(a).hash(h) }

// Distinct key functions per attribute for C01 / C06 (pairwise distinguishable partitions of 0..=5).
pub fn k_ord(v: &V) -> u8 { v.0 % 2 }
pub fn k_pord(v: &V) -> u8 { v.0 % 3 }
pub fn k_eq(v: &V) -> u8 { v.0 / 2 }
pub fn k_peq(v: &V) -> u8 { v.0 / 3 }
pub fn k_hash(v: &V) -> u8 { (v.0 + 1) / 2 }
// key functions with a partially ordered key type
pub fn kp_ord(v: &V) -> P { P(if v.0 == 5 { NAN } else { v.0 % 2 }) }
pub fn kp_pord(v: &V) -> P { P(if v.0 == 4 { NAN } else { v.0 % 3 }) }
// distinct `by` functions per attribute
pub fn b_ord(a: &V, b: &V) -> Ordering { ((a.0 + 1) % 3).cmp(&((b.0 + 1) % 3)) }
pub fn b_pord(a: &V, b: &V) -> Option<Ordering> {
    if a.0 == 5 || b.0 == 5 { None } else { Some((a.0 % 4).cmp(&(b.0 % 4))) }
}
pub fn b_eq(a: &V, b: &V) -> bool { (a.0 + 2) / 3 == (b.0 + 2) / 3 }
pub fn b_peq(a: &V, b: &V) -> bool { (a.0 ^ 1) / 2 == (b.0 ^ 1) / 2 && a.0 % 2 == b.0 % 2 || a.0 + b.0 == 5 }
pub fn b_hash<H: Hasher>(a: &V, h: &mut H) { h.write_u16(0xAB00 + (a.0 % 4) as u16) }
// for P-typed fields
pub fn p_total(a: &P, b: &P) -> Ordering { a.0.cmp(&b.0) }
pub fn p_ptotal(a: &P, b: &P) -> Option<Ordering> { Some(a.0.cmp(&b.0)) }
pub fn p_teq(a: &P, b: &P) -> bool { a.0 == b.0 }
pub fn p_key(a: &P) -> u8 { a.0 }
pub fn p_hash<H: Hasher>(a: &P, h: &mut H) { h.write_u8(a.0 ^ 0x55) }
// generic-friendly helpers: usable on fields whose type mentions a type parameter
pub fn g_key<T>(_: &T) -> u8 { 0 }
pub fn g_cmp<T>(_: &T, _: &T) -> Ordering { Ordering::Equal }
pub fn g_pcmp<T>(_: &T, _: &T) -> Option<Ordering> { Some(Ordering::Equal) }
pub fn g_eq<T>(_: &T, _: &T) -> bool { true }
pub fn g_hash<T, H: Hasher>(_: &T, h: &mut H) { h.write_u8(7) }

/// Declared bound for generic cases: five distinguishable keys reachable through `T: HasK`.
pub trait HasK {
    fn k1(&self) -> u8;
    fn k2(&self) -> u8;
    fn k3(&self) -> u8;
    fn k4(&self) -> u8;
    fn k5(&self) -> u8;
}
impl HasK for V {
    fn k1(&self) -> u8 { self.0 % 2 }
    fn k2(&self) -> u8 { self.0 % 3 }
    fn k3(&self) -> u8 { self.0 / 2 }
    fn k4(&self) -> u8 { self.0 / 3 }
    fn k5(&self) -> u8 { (self.0 + 1) / 2 }
}

// ---------------------------------------------------------------------------
// recording hasher
// ---------------------------------------------------------------------------

#[derive(Default)]
pub struct RecHasher {
    pub feed: Vec<String>,
}
impl RecHasher {
    pub fn new() -> Self { RecHasher { feed: Vec::new() } }
    pub fn of<T: Hash + ?Sized>(t: &T) -> String {
        let mut h = RecHasher::new();
        t.hash(&mut h);
        h.feed.join(";")
    }
    pub fn take(self) -> String { self.feed.join(";") }
}
fn hex(b: &[u8]) -> String {
    let mut s = String::new();
    for x in b {
        let _ = write!(s, "{x:02x}");
    }
    s
}
impl Hasher for RecHasher {
    fn finish(&self) -> u64 { 0 }
    fn write(&mut self, bytes: &[u8]) { self.feed.push(format!("w:{}", hex(bytes))) }
    fn write_u8(&mut self, i: u8) { self.feed.push(format!("u8:{i}")) }
    fn write_u16(&mut self, i: u16) { self.feed.push(format!("u16:{i}")) }
    fn write_u32(&mut self, i: u32) { self.feed.push(format!("u32:{i}")) }
    fn write_u64(&mut self, i: u64) { self.feed.push(format!("u64:{i}")) }
    fn write_u128(&mut self, i: u128) { self.feed.push(format!("u128:{i}")) }
    fn write_usize(&mut self, i: usize) { self.feed.push(format!("usize:{i}")) }
    fn write_i8(&mut self, i: i8) { self.feed.push(format!("i8:{i}")) }
    fn write_i16(&mut self, i: i16) { self.feed.push(format!("i16:{i}")) }
    fn write_i32(&mut self, i: i32) { self.feed.push(format!("i32:{i}")) }
    fn write_i64(&mut self, i: i64) { self.feed.push(format!("i64:{i}")) }
    fn write_i128(&mut self, i: i128) { self.feed.push(format!("i128:{i}")) }
    fn write_isize(&mut self, i: isize) { self.feed.push(format!("isize:{i}")) }
}

// ---------------------------------------------------------------------------
// Rec: call-recording field type for Clone / clone_from / drop
// ---------------------------------------------------------------------------

/// `Rec(tag, payload)`: tag identifies the field position it was created for.
pub struct Rec(pub u8, pub u32);
impl Rec {
    pub fn new(tag: u8, payload: u32) -> Rec {
        LIVE.with(|l| l.borrow_mut().0 += 1);
        Rec(tag, payload)
    }
    pub fn show(&self) -> String { format!("R{}:{}", self.0, self.1) }
}
impl Clone for Rec {
    fn clone(&self) -> Rec {
        trace(format!("clone {}:{}", self.0, self.1));
        LIVE.with(|l| l.borrow_mut().0 += 1);
        Rec(self.0, self.1)
    }
    fn clone_from(&mut self, src: &Rec) {
        trace(format!("clone_from {}:{}<-{}:{}", self.0, self.1, src.0, src.1));
        self.0 = src.0;
        self.1 = src.1;
    }
}
impl Drop for Rec {
    fn drop(&mut self) {
        trace(format!("drop {}:{}", self.0, self.1));
        LIVE.with(|l| l.borrow_mut().1 += 1);
    }
}
impl std::fmt::Debug for Rec {
    fn fmt(&self, f: &mut std::fmt::Formatter<'_>) -> std::fmt::Result {
        write!(f, "R{}:{}", self.0, self.1)
    }
}

/// `RecC(tag, payload)`: a `Copy` type whose hand-written `Clone` records its calls (a derived `clone` that is
/// field-wise must go through it even when the containing type is `Copy` too).
#[derive(Copy, PartialEq, Eq)]
pub struct RecC(pub u8, pub u32);
impl RecC {
    pub fn new(tag: u8, payload: u32) -> RecC { RecC(tag, payload) }
}
impl Clone for RecC {
    fn clone(&self) -> RecC {
        trace(format!("cclone {}:{}", self.0, self.1));
        RecC(self.0, self.1)
    }
    fn clone_from(&mut self, src: &RecC) {
        trace(format!("cclone_from {}:{}<-{}:{}", self.0, self.1, src.0, src.1));
        self.0 = src.0;
        self.1 = src.1;
    }
}
impl std::fmt::Debug for RecC {
    fn fmt(&self, f: &mut std::fmt::Formatter<'_>) -> std::fmt::Result {
        write!(f, "C{}:{}", self.0, self.1)
    }
}

/// A type whose inherent associated functions are named like trait methods the derives call: generated code must go
/// through the trait (`<T as Default>::default()`), never through plain path / method resolution.
#[derive(Debug, PartialEq, Eq)]
pub struct Inh(pub u32);
impl Inh {
    pub fn default() -> Inh { Inh(99) }
}
impl Default for Inh {
    fn default() -> Inh { Inh(1) }
}
impl From<u32> for Inh {
    fn from(x: u32) -> Inh { Inh(x) }
}

/// An unsized type that implements the standard traits and `Tr` (for `?Sized` instantiation probes).
#[derive(Debug, PartialEq, Eq, PartialOrd, Ord, Hash)]
pub struct YesU(pub [u8]);
impl Tr for YesU { type Assoc = u8; }

/// A lifetime-indexed marker every type has (for higher-ranked predicates `for<'b> Self: TagL<'b>`).
pub trait TagL<'b> {}
impl<'b, T: ?Sized> TagL<'b> for T {}
/// The same with a type argument (`T: for<'b> TagP<'b, Self>`).
pub trait TagP<'b, X: ?Sized> {}
impl<'b, X: ?Sized, T: ?Sized> TagP<'b, X> for T {}

/// Implemented by generated cases for chosen (type, argument) pairs only: `where T: TrG<Self>` then holds for `Self = X<T>`
/// and for nothing else (in particular not for `&X<T>`).
pub trait TrG<X: ?Sized> {}

/// `Cnt(x)`: like `u8` for the eight standard traits, but every comparison it takes part in is traced
/// (which fields a derived comparison looks at, and when it stops, becomes observable).
#[derive(Clone, Debug, Default, Hash)]
pub struct Cnt(pub u8);
impl PartialEq for Cnt {
    fn eq(&self, o: &Cnt) -> bool { trace(format!("eq {} {}", self.0, o.0)); self.0 == o.0 }
}
impl Eq for Cnt {}
impl PartialOrd for Cnt {
    fn partial_cmp(&self, o: &Cnt) -> Option<Ordering> { trace(format!("pcmp {} {}", self.0, o.0)); Some(self.0.cmp(&o.0)) }
}
impl Ord for Cnt {
    fn cmp(&self, o: &Cnt) -> Ordering { trace(format!("cmp {} {}", self.0, o.0)); self.0.cmp(&o.0) }
}

/// `Sh(x)`: implements the eight standard traits like `u8` does, and in addition has *inherent* methods named like the
/// trait methods that behave differently (and leave a trace).  Generated code that goes through the traits never reaches
/// them; `self.f.clone()` / `a.eq(b)`-style code would.
pub struct Sh(pub u8);
impl Sh {
    pub fn clone(&self) -> Sh { trace("inherent clone".to_string()); Sh(177) }
    pub fn clone_from(&mut self, _o: &Sh) { trace("inherent clone_from".to_string()); self.0 = 178; }
    pub fn eq(&self, _o: &Sh) -> bool { trace("inherent eq".to_string()); self.0 == 200 }
    pub fn ne(&self, _o: &Sh) -> bool { trace("inherent ne".to_string()); self.0 != 200 }
    pub fn partial_cmp(&self, _o: &Sh) -> Option<std::cmp::Ordering> { trace("inherent partial_cmp".to_string()); None }
    pub fn cmp(&self, _o: &Sh) -> std::cmp::Ordering { trace("inherent cmp".to_string()); std::cmp::Ordering::Greater }
    pub fn hash<HH: Hasher>(&self, h: &mut HH) { trace("inherent hash".to_string()); h.write_u8(0xEE) }
    pub fn fmt(&self, f: &mut std::fmt::Formatter<'_>) -> std::fmt::Result { f.write_str("INHERENT") }
    pub fn default() -> Sh { Sh(199) }
}
impl Clone for Sh {
    fn clone(&self) -> Sh { Sh(self.0) }
}
impl PartialEq for Sh {
    fn eq(&self, o: &Sh) -> bool { self.0 == o.0 }
}
impl Eq for Sh {}
impl PartialOrd for Sh {
    fn partial_cmp(&self, o: &Sh) -> Option<std::cmp::Ordering> { Some(self.0.cmp(&o.0)) }
}
impl Ord for Sh {
    fn cmp(&self, o: &Sh) -> std::cmp::Ordering { self.0.cmp(&o.0) }
}
impl Hash for Sh {
    fn hash<HH: Hasher>(&self, h: &mut HH) { h.write_u8(self.0) }
}
impl std::fmt::Debug for Sh {
    fn fmt(&self, f: &mut std::fmt::Formatter<'_>) -> std::fmt::Result { write!(f, "Sh({})", self.0) }
}
impl Default for Sh {
    fn default() -> Sh { Sh(3) }
}

// ---------------------------------------------------------------------------
// Term: free, non-commutative term algebra for operators; W: wrapping integer
// ---------------------------------------------------------------------------

#[derive(Debug, PartialEq, Eq)]
pub struct Term(pub String);
impl Term {
    pub fn new(s: &str) -> Term { Term(s.to_string()) }
}
/// Clone is recorded (C09 counts clones of operands).
impl Clone for Term {
    fn clone(&self) -> Term {
        trace(format!("tclone {}", self.0));
        Term(self.0.clone())
    }
}

#[derive(Debug, Clone, Copy, PartialEq, Eq)]
pub struct W(pub u8);

/// Declared bound for generic user impls in C09: something that behaves like a term.
pub trait Tm {
    fn s(&self) -> String;
    fn mk(s: String) -> Self;
}
impl Tm for Term {
    fn s(&self) -> String { self.0.clone() }
    fn mk(s: String) -> Self { Term(s) }
}

macro_rules! term_bin {
    ($Tr:ident, $f:ident, $TrA:ident, $fa:ident, $sym:expr, $wf:expr) => {
        impl std::ops::$Tr<Term> for Term {
            type Output = Term;
            fn $f(self, r: Term) -> Term { trace(format!("{}:vv", stringify!($f))); Term(format!("({} {} {})", self.0, $sym, r.0)) }
        }
        impl<'a> std::ops::$Tr<&'a Term> for Term {
            type Output = Term;
            fn $f(self, r: &'a Term) -> Term { trace(format!("{}:vr", stringify!($f))); Term(format!("({} {} {})", self.0, $sym, r.0)) }
        }
        impl<'a> std::ops::$Tr<Term> for &'a Term {
            type Output = Term;
            fn $f(self, r: Term) -> Term { trace(format!("{}:rv", stringify!($f))); Term(format!("({} {} {})", self.0, $sym, r.0)) }
        }
        impl<'a, 'b> std::ops::$Tr<&'b Term> for &'a Term {
            type Output = Term;
            fn $f(self, r: &'b Term) -> Term { trace(format!("{}:rr", stringify!($f))); Term(format!("({} {} {})", self.0, $sym, r.0)) }
        }
        impl std::ops::$TrA<Term> for Term {
            fn $fa(&mut self, r: Term) { trace(format!("{}:v", stringify!($fa))); self.0 = format!("({} {}= {})", self.0, $sym, r.0); }
        }
        impl<'a> std::ops::$TrA<&'a Term> for Term {
            fn $fa(&mut self, r: &'a Term) { trace(format!("{}:r", stringify!($fa))); self.0 = format!("({} {}= {})", self.0, $sym, r.0); }
        }
        impl std::ops::$Tr<W> for W { type Output = W; fn $f(self, r: W) -> W { W(($wf)(self.0, r.0)) } }
        impl<'a> std::ops::$Tr<&'a W> for W { type Output = W; fn $f(self, r: &'a W) -> W { W(($wf)(self.0, r.0)) } }
        impl<'a> std::ops::$Tr<W> for &'a W { type Output = W; fn $f(self, r: W) -> W { W(($wf)(self.0, r.0)) } }
        impl<'a, 'b> std::ops::$Tr<&'b W> for &'a W { type Output = W; fn $f(self, r: &'b W) -> W { W(($wf)(self.0, r.0)) } }
        impl std::ops::$TrA<W> for W { fn $fa(&mut self, r: W) { self.0 = ($wf)(self.0, r.0); } }
        impl<'a> std::ops::$TrA<&'a W> for W { fn $fa(&mut self, r: &'a W) { self.0 = ($wf)(self.0, r.0); } }
    };
}
term_bin!(Add, add, AddAssign, add_assign, "+", |a: u8, b: u8| a.wrapping_add(b));
term_bin!(Sub, sub, SubAssign, sub_assign, "-", |a: u8, b: u8| a.wrapping_sub(b));
term_bin!(Mul, mul, MulAssign, mul_assign, "*", |a: u8, b: u8| a.wrapping_mul(b));
term_bin!(Div, div, DivAssign, div_assign, "/", |a: u8, b: u8| a / (b | 1));
term_bin!(Rem, rem, RemAssign, rem_assign, "%", |a: u8, b: u8| a % (b | 1));
term_bin!(BitAnd, bitand, BitAndAssign, bitand_assign, "&", |a: u8, b: u8| a & b);
term_bin!(BitOr, bitor, BitOrAssign, bitor_assign, "|", |a: u8, b: u8| a | b);
term_bin!(BitXor, bitxor, BitXorAssign, bitxor_assign, "^", |a: u8, b: u8| a ^ b);
term_bin!(Shl, shl, ShlAssign, shl_assign, "<<", |a: u8, b: u8| a.wrapping_shl(b as u32));
term_bin!(Shr, shr, ShrAssign, shr_assign, ">>", |a: u8, b: u8| a.wrapping_shr(b as u32));

macro_rules! term_un {
    ($Tr:ident, $f:ident, $sym:expr, $wf:expr) => {
        impl std::ops::$Tr for Term {
            type Output = Term;
            fn $f(self) -> Term { trace(format!("{}:v", stringify!($f))); Term(format!("({}{})", $sym, self.0)) }
        }
        impl<'a> std::ops::$Tr for &'a Term {
            type Output = Term;
            fn $f(self) -> Term { trace(format!("{}:r", stringify!($f))); Term(format!("({}{})", $sym, self.0)) }
        }
        impl std::ops::$Tr for W { type Output = W; fn $f(self) -> W { W(($wf)(self.0)) } }
        impl<'a> std::ops::$Tr for &'a W { type Output = W; fn $f(self) -> W { W(($wf)(self.0)) } }
    };
}
term_un!(Neg, neg, "-", |a: u8| a.wrapping_neg());
term_un!(Not, not, "!", |a: u8| !a);

// ---------------------------------------------------------------------------
// Conv / Src: conversions that record that they ran (C11)
// ---------------------------------------------------------------------------

#[derive(Debug, Clone, PartialEq)]
pub struct Conv {
    pub val: String,
    pub via: &'static str,
}
impl Conv {
    pub fn direct(s: &str) -> Conv { Conv { val: s.to_string(), via: "direct" } }
}
impl Default for Conv {
    fn default() -> Conv { Conv { val: String::new(), via: "default" } }
}
impl From<&str> for Conv {
    fn from(s: &str) -> Conv { Conv { val: s.to_string(), via: "from_str" } }
}
#[derive(Debug, Clone, Copy, PartialEq)]
pub struct Src(pub u8);
impl From<Src> for Conv {
    fn from(s: Src) -> Conv { Conv { val: format!("src{}", s.0), via: "from_src" } }
}
pub const SRC7: Src = Src(7);
/// Convertible to `Conv` through `Into` only (there is no `From<IntoOnly> for Conv`).
#[derive(Debug, Clone, Copy, PartialEq)]
pub struct IntoOnly(pub u8);
#[allow(clippy::from_over_into)]
impl Into<Conv> for IntoOnly {
    fn into(self) -> Conv { Conv { val: format!("io{}", self.0), via: "into_only" } }
}
pub const INTO_ONLY: IntoOnly = IntoOnly(4);
pub const CONV_K: Conv = Conv { val: String::new(), via: "const" };
pub fn conv_call() -> Conv { Conv { val: "call".to_string(), via: "direct" } }
pub fn str_call() -> &'static str { "called" }
pub fn src_call() -> Src { Src(3) }
#[derive(Debug, Clone, Copy, PartialEq, Default)]
pub enum Color { #[default] Red, Green }
impl From<Color> for Conv {
    fn from(c: Color) -> Conv { Conv { val: format!("{c:?}"), via: "from_color" } }
}

// ---------------------------------------------------------------------------
// trait-solver probes
// ---------------------------------------------------------------------------

/// `probe_impl!(Type: Bound + Bound ..)` -> bool, decided by rustc's trait solver
/// (inherent method shadows the blanket trait method iff the bound holds).
#[macro_export]
macro_rules! probe_impl {
    ($ty:ty : $($tr:tt)+) => {{
        struct __Probe<T: ?Sized>(::core::marker::PhantomData<T>);
        trait __Fallback { fn __yes(&self) -> bool { false } }
        impl<T: ?Sized> __Fallback for __Probe<T> {}
        #[allow(dead_code)]
        impl<T: ?Sized + $($tr)+> __Probe<T> { fn __yes(&self) -> bool { true } }
        __Probe::<$ty>(::core::marker::PhantomData).__yes()
    }};
}

/// Implements every derivable trait, in every operator form.
#[derive(Clone, Copy, Debug, Default, PartialEq, Eq, PartialOrd, Ord, Hash)]
pub struct Yes;
/// Implements none of them.
pub struct No;

/// Marker traits `M<I>`; `AllBut<I>` implements every `M<J>` with `J != I` (generated below)
/// and every derivable std trait.
pub trait M<const I: usize> {}
#[derive(Clone, Copy, Debug, Default, PartialEq, Eq, PartialOrd, Ord, Hash)]
pub struct AllBut<const I: usize>;
/// Implements every marker.
#[derive(Clone, Copy, Debug, Default, PartialEq, Eq, PartialOrd, Ord, Hash)]
pub struct AllM;
impl<const I: usize> M<I> for AllM {}

/// `Fwd<T>` implements a trait iff `T` does; `Always<T>` always; `Never<T>` never.
pub struct Fwd<T>(pub T);
pub struct Always<T>(pub PhantomData<T>);
pub struct Never<T>(pub PhantomData<T>);
/// `Wr<K, T>` implements every derivable trait iff `T: M<K>`.
pub struct Wr<const K: usize, T>(pub PhantomData<T>);
/// `Aw<K, T>` implements every derivable trait unconditionally (K only makes the type distinct).
pub struct Aw<const K: usize, T>(pub PhantomData<T>);

// Fwd<T>: Tr  <=>  T: Tr   (each where-clause is `T: <that trait>`)
impl<T: Clone> Clone for Fwd<T> { fn clone(&self) -> Self { Fwd(self.0.clone()) } }
impl<T: Copy> Copy for Fwd<T> {}
impl<T: std::fmt::Debug> std::fmt::Debug for Fwd<T> {
    fn fmt(&self, f: &mut std::fmt::Formatter<'_>) -> std::fmt::Result { f.write_str("Fwd") }
}
impl<T: Default> Default for Fwd<T> { fn default() -> Self { Fwd(T::default()) } }
impl<T: PartialEq> PartialEq for Fwd<T> { fn eq(&self, o: &Self) -> bool { self.0 == o.0 } }
impl<T: Eq> Eq for Fwd<T> {}
impl<T: PartialOrd> PartialOrd for Fwd<T> { fn partial_cmp(&self, o: &Self) -> Option<Ordering> { self.0.partial_cmp(&o.0) } }
impl<T: Ord> Ord for Fwd<T> { fn cmp(&self, o: &Self) -> Ordering { self.0.cmp(&o.0) } }
impl<T: Hash> Hash for Fwd<T> { fn hash<HH: Hasher>(&self, h: &mut HH) { self.0.hash(h) } }

macro_rules! uncond_traits {
    ([$($g:tt)*] $ty:ty, [$($w:tt)*], $ctor:expr) => {
        impl<$($g)*> Clone for $ty where $($w)* { fn clone(&self) -> Self { $ctor } }
        impl<$($g)*> Copy for $ty where $($w)* {}
        impl<$($g)*> std::fmt::Debug for $ty where $($w)* {
            fn fmt(&self, f: &mut std::fmt::Formatter<'_>) -> std::fmt::Result { f.write_str("probe") }
        }
        impl<$($g)*> Default for $ty where $($w)* { fn default() -> Self { $ctor } }
        impl<$($g)*> PartialEq for $ty where $($w)* { fn eq(&self, _: &Self) -> bool { true } }
        impl<$($g)*> Eq for $ty where $($w)* {}
        impl<$($g)*> PartialOrd for $ty where $($w)* {
            fn partial_cmp(&self, _: &Self) -> Option<Ordering> { Some(Ordering::Equal) }
        }
        impl<$($g)*> Ord for $ty where $($w)* { fn cmp(&self, _: &Self) -> Ordering { Ordering::Equal } }
        impl<$($g)*> Hash for $ty where $($w)* { fn hash<HH: Hasher>(&self, _: &mut HH) {} }
    };
}
uncond_traits!([T] Always<T>, [], Always(PhantomData));
uncond_traits!([const K: usize, T] Aw<K, T>, [], Aw(PhantomData));
uncond_traits!([const K: usize, T] Wr<K, T>, [T: M<K>], Wr(PhantomData));

/// Implements exactly ONE owned/reference form of every operator: F = 0: `T op T`, 1: `T op &T`, 2: `&T op T`, 3: `&T op &T`;
/// assign: 0: `T op= T`, 1: `T op= &T`; unary: 0: `op T`, 2: `op &T`.
#[derive(Clone, Copy, Debug, Default, PartialEq, Eq, PartialOrd, Ord, Hash)]
pub struct OnlyForm<const F: usize>;

/// Zero-sized operand carrying a lifetime and a const parameter (lets operator derives meet those parameter kinds).
#[derive(Clone, Copy, Debug, Default, PartialEq, Eq, PartialOrd, Ord, Hash)]
pub struct Lt<'l, const N: usize>(pub PhantomData<&'l [u8; N]>);

macro_rules! probe_ops {
    ($Tr:ident, $f:ident, $TrA:ident, $fa:ident) => {
        impl std::ops::$Tr<OnlyForm<0>> for OnlyForm<0> { type Output = OnlyForm<0>; fn $f(self, _: OnlyForm<0>) -> OnlyForm<0> { OnlyForm } }
        impl<'a> std::ops::$Tr<&'a OnlyForm<1>> for OnlyForm<1> { type Output = OnlyForm<1>; fn $f(self, _: &'a OnlyForm<1>) -> OnlyForm<1> { OnlyForm } }
        impl<'a> std::ops::$Tr<OnlyForm<2>> for &'a OnlyForm<2> { type Output = OnlyForm<2>; fn $f(self, _: OnlyForm<2>) -> OnlyForm<2> { OnlyForm } }
        impl<'a, 'b> std::ops::$Tr<&'b OnlyForm<3>> for &'a OnlyForm<3> { type Output = OnlyForm<3>; fn $f(self, _: &'b OnlyForm<3>) -> OnlyForm<3> { OnlyForm } }
        // 4: `&T op &T` with ONE lifetime for both operands (the usual hand-written spelling)
        impl<'a> std::ops::$Tr<&'a OnlyForm<4>> for &'a OnlyForm<4> { type Output = OnlyForm<4>; fn $f(self, _: &'a OnlyForm<4>) -> OnlyForm<4> { OnlyForm } }
        impl std::ops::$TrA<OnlyForm<0>> for OnlyForm<0> { fn $fa(&mut self, _: OnlyForm<0>) {} }
        impl<'a> std::ops::$TrA<&'a OnlyForm<1>> for OnlyForm<1> { fn $fa(&mut self, _: &'a OnlyForm<1>) {} }
        impl<'l, const N: usize> std::ops::$Tr<Lt<'l, N>> for Lt<'l, N> { type Output = Lt<'l, N>; fn $f(self, _: Lt<'l, N>) -> Lt<'l, N> { self } }
        impl<'x, 'l, const N: usize> std::ops::$Tr<&'x Lt<'l, N>> for Lt<'l, N> { type Output = Lt<'l, N>; fn $f(self, _: &'x Lt<'l, N>) -> Lt<'l, N> { self } }
        impl<'x, 'l, const N: usize> std::ops::$Tr<Lt<'l, N>> for &'x Lt<'l, N> { type Output = Lt<'l, N>; fn $f(self, _: Lt<'l, N>) -> Lt<'l, N> { *self } }
        impl<'x, 'y, 'l, const N: usize> std::ops::$Tr<&'y Lt<'l, N>> for &'x Lt<'l, N> { type Output = Lt<'l, N>; fn $f(self, _: &'y Lt<'l, N>) -> Lt<'l, N> { *self } }
        impl<'l, const N: usize> std::ops::$TrA<Lt<'l, N>> for Lt<'l, N> { fn $fa(&mut self, _: Lt<'l, N>) {} }
        impl<'x, 'l, const N: usize> std::ops::$TrA<&'x Lt<'l, N>> for Lt<'l, N> { fn $fa(&mut self, _: &'x Lt<'l, N>) {} }
        // Yes: all four forms + both assign forms
        impl std::ops::$Tr<Yes> for Yes { type Output = Yes; fn $f(self, _: Yes) -> Yes { Yes } }
        impl<'a> std::ops::$Tr<&'a Yes> for Yes { type Output = Yes; fn $f(self, _: &'a Yes) -> Yes { Yes } }
        impl<'a> std::ops::$Tr<Yes> for &'a Yes { type Output = Yes; fn $f(self, _: Yes) -> Yes { Yes } }
        impl<'a, 'b> std::ops::$Tr<&'b Yes> for &'a Yes { type Output = Yes; fn $f(self, _: &'b Yes) -> Yes { Yes } }
        impl std::ops::$TrA<Yes> for Yes { fn $fa(&mut self, _: Yes) {} }
        impl<'a> std::ops::$TrA<&'a Yes> for Yes { fn $fa(&mut self, _: &'a Yes) {} }
        // Fwd<T>: form-wise forwarding
        impl<T: std::ops::$Tr<T, Output = T>> std::ops::$Tr<Fwd<T>> for Fwd<T> {
            type Output = Fwd<T>; fn $f(self, r: Fwd<T>) -> Fwd<T> { Fwd(std::ops::$Tr::$f(self.0, r.0)) }
        }
        impl<'a, T: std::ops::$Tr<&'a T, Output = T>> std::ops::$Tr<&'a Fwd<T>> for Fwd<T> {
            type Output = Fwd<T>; fn $f(self, r: &'a Fwd<T>) -> Fwd<T> { Fwd(std::ops::$Tr::$f(self.0, &r.0)) }
        }
        impl<'a, T> std::ops::$Tr<Fwd<T>> for &'a Fwd<T> where &'a T: std::ops::$Tr<T, Output = T> {
            type Output = Fwd<T>; fn $f(self, r: Fwd<T>) -> Fwd<T> { Fwd(std::ops::$Tr::$f(&self.0, r.0)) }
        }
        impl<'a, 'b, T> std::ops::$Tr<&'b Fwd<T>> for &'a Fwd<T> where &'a T: std::ops::$Tr<&'b T, Output = T> {
            type Output = Fwd<T>; fn $f(self, r: &'b Fwd<T>) -> Fwd<T> { Fwd(std::ops::$Tr::$f(&self.0, &r.0)) }
        }
        impl<T: std::ops::$TrA<T>> std::ops::$TrA<Fwd<T>> for Fwd<T> { fn $fa(&mut self, r: Fwd<T>) { std::ops::$TrA::$fa(&mut self.0, r.0) } }
        impl<'a, T: std::ops::$TrA<&'a T>> std::ops::$TrA<&'a Fwd<T>> for Fwd<T> { fn $fa(&mut self, r: &'a Fwd<T>) { std::ops::$TrA::$fa(&mut self.0, &r.0) } }
        // Always<T>
        impl<T> std::ops::$Tr<Always<T>> for Always<T> { type Output = Always<T>; fn $f(self, _: Always<T>) -> Always<T> { Always(PhantomData) } }
        impl<'a, T> std::ops::$Tr<&'a Always<T>> for Always<T> { type Output = Always<T>; fn $f(self, _: &'a Always<T>) -> Always<T> { Always(PhantomData) } }
        impl<'a, T> std::ops::$Tr<Always<T>> for &'a Always<T> { type Output = Always<T>; fn $f(self, _: Always<T>) -> Always<T> { Always(PhantomData) } }
        impl<'a, 'b, T> std::ops::$Tr<&'b Always<T>> for &'a Always<T> { type Output = Always<T>; fn $f(self, _: &'b Always<T>) -> Always<T> { Always(PhantomData) } }
        impl<T> std::ops::$TrA<Always<T>> for Always<T> { fn $fa(&mut self, _: Always<T>) {} }
        impl<'a, T> std::ops::$TrA<&'a Always<T>> for Always<T> { fn $fa(&mut self, _: &'a Always<T>) {} }
        // Wr<K,T> (iff T: M<K>) and Aw<K,T> (always)
        impl<const K: usize, T: M<K>> std::ops::$Tr<Wr<K, T>> for Wr<K, T> { type Output = Wr<K, T>; fn $f(self, _: Wr<K, T>) -> Wr<K, T> { Wr(PhantomData) } }
        impl<'a, const K: usize, T: M<K>> std::ops::$Tr<&'a Wr<K, T>> for Wr<K, T> { type Output = Wr<K, T>; fn $f(self, _: &'a Wr<K, T>) -> Wr<K, T> { Wr(PhantomData) } }
        impl<'a, const K: usize, T: M<K>> std::ops::$Tr<Wr<K, T>> for &'a Wr<K, T> { type Output = Wr<K, T>; fn $f(self, _: Wr<K, T>) -> Wr<K, T> { Wr(PhantomData) } }
        impl<'a, 'b, const K: usize, T: M<K>> std::ops::$Tr<&'b Wr<K, T>> for &'a Wr<K, T> { type Output = Wr<K, T>; fn $f(self, _: &'b Wr<K, T>) -> Wr<K, T> { Wr(PhantomData) } }
        impl<const K: usize, T: M<K>> std::ops::$TrA<Wr<K, T>> for Wr<K, T> { fn $fa(&mut self, _: Wr<K, T>) {} }
        impl<'a, const K: usize, T: M<K>> std::ops::$TrA<&'a Wr<K, T>> for Wr<K, T> { fn $fa(&mut self, _: &'a Wr<K, T>) {} }
        impl<const K: usize, T> std::ops::$Tr<Aw<K, T>> for Aw<K, T> { type Output = Aw<K, T>; fn $f(self, _: Aw<K, T>) -> Aw<K, T> { Aw(PhantomData) } }
        impl<'a, const K: usize, T> std::ops::$Tr<&'a Aw<K, T>> for Aw<K, T> { type Output = Aw<K, T>; fn $f(self, _: &'a Aw<K, T>) -> Aw<K, T> { Aw(PhantomData) } }
        impl<'a, const K: usize, T> std::ops::$Tr<Aw<K, T>> for &'a Aw<K, T> { type Output = Aw<K, T>; fn $f(self, _: Aw<K, T>) -> Aw<K, T> { Aw(PhantomData) } }
        impl<'a, 'b, const K: usize, T> std::ops::$Tr<&'b Aw<K, T>> for &'a Aw<K, T> { type Output = Aw<K, T>; fn $f(self, _: &'b Aw<K, T>) -> Aw<K, T> { Aw(PhantomData) } }
        impl<const K: usize, T> std::ops::$TrA<Aw<K, T>> for Aw<K, T> { fn $fa(&mut self, _: Aw<K, T>) {} }
        impl<'a, const K: usize, T> std::ops::$TrA<&'a Aw<K, T>> for Aw<K, T> { fn $fa(&mut self, _: &'a Aw<K, T>) {} }
        // AllBut<I> / AllM: every operator
        impl<const I: usize> std::ops::$Tr<AllBut<I>> for AllBut<I> { type Output = AllBut<I>; fn $f(self, _: AllBut<I>) -> AllBut<I> { AllBut } }
        impl<'a, const I: usize> std::ops::$Tr<&'a AllBut<I>> for AllBut<I> { type Output = AllBut<I>; fn $f(self, _: &'a AllBut<I>) -> AllBut<I> { AllBut } }
        impl<'a, const I: usize> std::ops::$Tr<AllBut<I>> for &'a AllBut<I> { type Output = AllBut<I>; fn $f(self, _: AllBut<I>) -> AllBut<I> { AllBut } }
        impl<'a, 'b, const I: usize> std::ops::$Tr<&'b AllBut<I>> for &'a AllBut<I> { type Output = AllBut<I>; fn $f(self, _: &'b AllBut<I>) -> AllBut<I> { AllBut } }
        impl<const I: usize> std::ops::$TrA<AllBut<I>> for AllBut<I> { fn $fa(&mut self, _: AllBut<I>) {} }
        impl<'a, const I: usize> std::ops::$TrA<&'a AllBut<I>> for AllBut<I> { fn $fa(&mut self, _: &'a AllBut<I>) {} }
    };
}
probe_ops!(Add, add, AddAssign, add_assign);
probe_ops!(Sub, sub, SubAssign, sub_assign);
probe_ops!(Mul, mul, MulAssign, mul_assign);
probe_ops!(Div, div, DivAssign, div_assign);
probe_ops!(Rem, rem, RemAssign, rem_assign);
probe_ops!(BitAnd, bitand, BitAndAssign, bitand_assign);
probe_ops!(BitOr, bitor, BitOrAssign, bitor_assign);
probe_ops!(BitXor, bitxor, BitXorAssign, bitxor_assign);
probe_ops!(Shl, shl, ShlAssign, shl_assign);
probe_ops!(Shr, shr, ShrAssign, shr_assign);

macro_rules! probe_unops {
    ($Tr:ident, $f:ident) => {
        impl std::ops::$Tr for OnlyForm<0> { type Output = OnlyForm<0>; fn $f(self) -> OnlyForm<0> { OnlyForm } }
        impl<'a> std::ops::$Tr for &'a OnlyForm<2> { type Output = OnlyForm<2>; fn $f(self) -> OnlyForm<2> { OnlyForm } }
        impl<'l, const N: usize> std::ops::$Tr for Lt<'l, N> { type Output = Lt<'l, N>; fn $f(self) -> Lt<'l, N> { self } }
        impl<'x, 'l, const N: usize> std::ops::$Tr for &'x Lt<'l, N> { type Output = Lt<'l, N>; fn $f(self) -> Lt<'l, N> { *self } }
        impl std::ops::$Tr for Yes { type Output = Yes; fn $f(self) -> Yes { Yes } }
        impl<'a> std::ops::$Tr for &'a Yes { type Output = Yes; fn $f(self) -> Yes { Yes } }
        impl<T: std::ops::$Tr<Output = T>> std::ops::$Tr for Fwd<T> { type Output = Fwd<T>; fn $f(self) -> Fwd<T> { Fwd(std::ops::$Tr::$f(self.0)) } }
        impl<'a, T> std::ops::$Tr for &'a Fwd<T> where &'a T: std::ops::$Tr<Output = T> { type Output = Fwd<T>; fn $f(self) -> Fwd<T> { Fwd(std::ops::$Tr::$f(&self.0)) } }
        impl<T> std::ops::$Tr for Always<T> { type Output = Always<T>; fn $f(self) -> Always<T> { Always(PhantomData) } }
        impl<'a, T> std::ops::$Tr for &'a Always<T> { type Output = Always<T>; fn $f(self) -> Always<T> { Always(PhantomData) } }
        impl<const K: usize, T: M<K>> std::ops::$Tr for Wr<K, T> { type Output = Wr<K, T>; fn $f(self) -> Wr<K, T> { Wr(PhantomData) } }
        impl<'a, const K: usize, T: M<K>> std::ops::$Tr for &'a Wr<K, T> { type Output = Wr<K, T>; fn $f(self) -> Wr<K, T> { Wr(PhantomData) } }
        impl<const K: usize, T> std::ops::$Tr for Aw<K, T> { type Output = Aw<K, T>; fn $f(self) -> Aw<K, T> { Aw(PhantomData) } }
        impl<'a, const K: usize, T> std::ops::$Tr for &'a Aw<K, T> { type Output = Aw<K, T>; fn $f(self) -> Aw<K, T> { Aw(PhantomData) } }
        impl<const I: usize> std::ops::$Tr for AllBut<I> { type Output = AllBut<I>; fn $f(self) -> AllBut<I> { AllBut } }
        impl<'a, const I: usize> std::ops::$Tr for &'a AllBut<I> { type Output = AllBut<I>; fn $f(self) -> AllBut<I> { AllBut } }
    };
}
probe_unops!(Neg, neg);
probe_unops!(Not, not);

// assoc-type helper trait for C03 field types `T::Assoc` / `<T as Tr>::Assoc`
pub trait Tr { type Assoc; }
impl Tr for Yes { type Assoc = Yes; }
impl Tr for No { type Assoc = No; }
/// implements everything itself but projects to `No`
#[derive(Clone, Copy, Debug, Default, PartialEq, Eq, PartialOrd, Ord, Hash)]
pub struct YesToNo;
impl Tr for YesToNo { type Assoc = No; }
/// implements nothing itself but projects to `Yes`
pub struct NoToYes;
impl Tr for NoToYes { type Assoc = Yes; }

// @@MARKERS@@  (generated: `impl M<J> for AllBut<I>` for all I != J below the marker count)
