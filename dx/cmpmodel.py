"""Reference model of the comparison helper attributes, written from doc/derive_ex.md
and the property statements only (never from the implementation).

A *combo* is a 5-tuple of option strings for (ord, partial_ord, eq, partial_eq, hash).
"""
import itertools

ATTRS = ["ord", "partial_ord", "eq", "partial_eq", "hash"]
ORD_OPTS = ["-", "ignore", "reverse", "key", "by", "reverse+key", "reverse+by"]
EQ_OPTS = ["-", "ignore", "key", "by"]
TRAITS = ["Ord", "PartialOrd", "Eq", "PartialEq", "Hash"]

# Which helper attributes affect which trait, most specific first (doc table; the
# documentation says "the helper attributes in the lines below are applied preferentially").
# `partial_eq` is not listed for Eq: the repository's own (ignored) trybuild cases
# eq_with_partial_eq_{key,by,ignore} fix the intended reading.
AFFECTS = {
    "Ord": ["ord"],
    "PartialOrd": ["partial_ord", "ord"],
    "Eq": ["eq", "ord"],
    "PartialEq": ["partial_eq", "eq", "partial_ord", "ord"],
    "Hash": ["hash", "eq", "ord"],
}
# documented ownership of helper attribute names (C14/C15): attribute -> traits it belongs to
OWNS = {
    "ord": ["Ord", "PartialOrd", "Eq", "PartialEq", "Hash"],
    "partial_ord": ["PartialOrd", "PartialEq"],
    "eq": ["Eq", "PartialEq", "Hash"],
    "partial_eq": ["PartialEq"],
    "hash": ["Hash"],
    "debug": ["Debug"],
    "default": ["Default"],
}

# The doc table also ticks partial_eq -> Eq, but the repository's own trybuild cases
# (eq_with_partial_eq_{ignore,key,by}) treat that pairing as an error: not judged either way.
OWNS_DONTCARE = {("partial_eq", "Eq")}

SUPER = {"Ord": ["PartialOrd", "Eq", "PartialEq"], "PartialOrd": ["PartialEq"], "Eq": ["PartialEq"],
         "PartialEq": [], "Hash": []}


def all_combos():
    return list(itertools.product(ORD_OPTS, ORD_OPTS, EQ_OPTS, EQ_OPTS, EQ_OPTS))


def flags(opt):
    parts = [] if opt == "-" else opt.split("+")
    return {"ignore": "ignore" in parts, "reverse": "reverse" in parts, "key": "key" in parts, "by": "by" in parts}


def combo_flags(combo):
    return {a: flags(o) for a, o in zip(ATTRS, combo)}


def closed_subsets():
    """Supertrait-closed, non-empty subsets of the five traits."""
    out = []
    for r in range(1, 6):
        for s in itertools.combinations(TRAITS, r):
            if all(all(x in s for x in SUPER[t]) for t in s):
                out.append(list(s))
    return out


# ---------------------------------------------------------------------------
# C05: accept / reject model
# ---------------------------------------------------------------------------

def status(trait, combo):
    """'accept' | 'reject' | 'dontcare' for deriving `trait` on a field carrying `combo`."""
    f = combo_flags(combo)
    ignored_t = any(f[a]["ignore"] for a in AFFECTS[trait])
    pe_ignored = any(f[a]["ignore"] for a in ("ord", "partial_ord", "eq", "partial_eq"))
    if trait == "Hash" and f["hash"]["ignore"] and not pe_ignored:
        # doc: "cannot apply ignore to only some traits" vs C02 "Hash may ignore more": not judged
        return "dontcare"
    if ignored_t:
        return "accept"
    if pe_ignored:
        return "reject"            # R2: == skips the field, this trait would not
    if trait == "Ord" and f["partial_ord"]["reverse"]:
        return "reject"            # R3
    if usable(trait, f):
        return "accept"
    if any(f[a]["key"] or f[a]["by"] for a in ("ord", "partial_ord", "eq", "partial_eq")):
        return "reject"            # R1: customised elsewhere, this trait would use the default
    if f["hash"]["key"] or f["hash"]["by"]:
        return "dontcare"          # only hash customised, trait != Hash
    return "accept"


def usable(trait, f):
    if trait == "Hash":
        return f["hash"]["key"] or f["hash"]["by"] or f["eq"]["key"] or f["ord"]["key"]
    return any(f[a]["key"] or f[a]["by"] for a in AFFECTS[trait])


# ---------------------------------------------------------------------------
# C01 / C06: which source supplies the comparator / hash input
# ---------------------------------------------------------------------------

def source(trait, combo):
    """Returns (kind, attr) with kind in 'key' | 'by' | 'field' | 'ignored' for an *accepted* combo."""
    f = combo_flags(combo)
    if any(f[a]["ignore"] for a in AFFECTS[trait]):
        return ("ignored", None)
    if trait == "Hash":
        if f["hash"]["by"]:
            return ("by", "hash")
        for a in ("hash", "eq", "ord"):
            if f[a]["key"]:
                return ("key", a)
        return ("field", None)
    for a in AFFECTS[trait]:
        if f[a]["by"]:
            return ("by", a)
        if f[a]["key"]:
            return ("key", a)
    return ("field", None)


def reversed_for(trait, combo):
    f = combo_flags(combo)
    if trait == "Ord":
        return f["ord"]["reverse"]
    if trait == "PartialOrd":
        return f["partial_ord"]["reverse"] or f["ord"]["reverse"]
    return False


def render_attrs(combo, key, by, order=None):
    """combo -> list of attribute strings.  key: dict attr -> key template (uses `$`);
    by: dict attr -> path/closure expression."""
    out = []
    for a, o in zip(ATTRS, combo):
        if o == "-":
            continue
        fl = flags(o)
        args = []
        if fl["ignore"]:
            args.append("ignore")
        if fl["reverse"]:
            args.append("reverse")
        if fl["key"]:
            args.append(f"key = {key[a]}")
        if fl["by"]:
            args.append(f"by = {by[a]}")
        out.append(f"#[{a}({', '.join(args)})]")
    if order:
        out = [out[i] for i in order if i < len(out)]
    return out
