"""C12 — without helper attributes derive_ex is a drop-in for the standard derives (E-run, twin)."""
import json

from . import common as C

FLOOR = {"quick": 5000, "thorough": 40000}
NRANDOM = {"quick": 1500, "thorough": 10000}
HEADER = "#![allow(warnings)]"
ALL8 = ["Clone", "Debug", "Default", "PartialEq", "Eq", "PartialOrd", "Ord", "Hash"]
SUPER = {"Ord": ["PartialOrd", "Eq", "PartialEq"], "PartialOrd": ["PartialEq"], "Eq": ["PartialEq"]}

# field type -> (text, values, caps)   caps: "all" or "noeq" (float-like: no Eq/Ord/Hash)
FT = {
    "u8": ("u8", ["0u8", "7u8"], "all"),
    "i32": ("i32", ["-3i32", "5i32"], "all"),
    "string": ("::std::string::String", ["::std::string::String::new()", "::std::string::String::from(\"k\")"], "all"),
    "opt": ("::core::option::Option<u8>", ["::core::option::Option::None", "::core::option::Option::Some(1u8)"], "all"),
    "vec": ("::std::vec::Vec<u8>", ["vec![]", "vec![2u8, 1u8]"], "all"),
    "pair": ("(u8, u8)", ["(0u8, 1u8)", "(1u8, 0u8)"], "all"),
    "f64": ("f64", ["0.5f64", "-1.0f64"], "noeq"),
    # inherent methods named like the trait methods, behaving differently: only code that bypasses the traits reaches them
    "sh": ("::dxrt::Sh", ["::dxrt::Sh(1)", "::dxrt::Sh(4)"], "all"),
    # every comparison this type takes part in is traced: which fields are looked at, and where a comparison stops
    "cnt": ("::dxrt::Cnt", ["::dxrt::Cnt(1)", "::dxrt::Cnt(2)"], "all"),
    "T": ("T", ["1u8", "3u8"], "all"),
    "optT": ("::core::option::Option<T>", ["::core::option::Option::None", "::core::option::Option::Some(2u8)"], "all"),
    "arr": ("[u8; N]", ["[0u8, 0u8]", "[1u8, 2u8]"], "all"),
    "str": ("&'a str", ["\"p\"", "\"q\""], "all"),
    # two field types that are equal up to the lifetime
    "refaT": ("&'a T", ["&1u8", "&3u8"], "all"),
    "refbT": ("&'b T", ["&1u8", "&2u8"], "all"),
    # the parameter reached only through a projection (spec["pj"]: `T: Pj` declared, `Pj` in scope with `u8: Pj<Out = u8>`)
    "pjT": ("T::Out", ["1u8", "3u8"], "all"),
    "vpjT": ("::std::vec::Vec<T::Out>", ["::std::vec::Vec::new()", "::std::vec![2u8]"], "all"),
    "qpjT": ("<T as Pj>::Out", ["0u8", "2u8"], "all"),
}
# (identity projections, also for the types of the applicability probes: there `T: Trait` and `T::Out: Trait` say the same)
PJ_SCOPE = "pub trait Pj { type Out; } impl Pj for u8 { type Out = u8; } impl Pj for f32 { type Out = f32; } impl Pj for ::dxrt::P { type Out = ::dxrt::P; }"
RAW_FIELDS = ["r#type", "r#fn", "r#match"]
RAW_VARIANTS = ["r#Self_", "r#loop", "r#Box"]


def close(traits):
    s = list(traits)
    for t in list(s):
        for x in SUPER.get(t, []):
            if x not in s:
                s.append(x)
    return [t for t in ALL8 if t in s]


def gen_spec(rng):
    kind = rng.choice(["struct", "enum", "enum"])
    traits = close(rng.sample(ALL8, rng.randint(1, 8)))
    noeq_ok = not any(t in traits for t in ("Eq", "Ord", "Hash"))
    raw = rng.random() < 0.15
    pool = ["u8", "i32", "string", "opt", "vec", "pair", "sh", "cnt", "cnt"] + (["f64"] if noeq_ok else [])
    gen_kind = rng.choice(["none", "none", "T", "T", "N", "a", "TNa", "abT"])
    if "T" in gen_kind:
        pool += ["T", "optT"]
    if "N" in gen_kind:
        pool += ["arr"]
    if "a" in gen_kind and "Default" not in traits:
        pool += ["str"]
    if gen_kind == "abT" and "Default" not in traits:
        pool += ["refaT", "refaT", "refbT"]
    nv = 1 if kind == "struct" else rng.choice([0, 1, 1, 2, 2, 3, 4, 5])
    variants = []
    for vi in range(nv):
        style = rng.choice(["named", "tuple", "unit"])
        nf = 0 if style == "unit" else rng.randint(0, 4)
        fs = [rng.choice(pool) for _ in range(nf)]
        variants.append({"style": style, "fields": fs})
    spec = {"kind": kind, "variants": variants, "traits": traits, "raw": raw, "gen": gen_kind,
            "entry": rng.choice(["attr", "derive"]), "type_attr": rng.choice(["", "", "#[repr(C)]", "#[non_exhaustive]"]),
            "where": rng.random() < 0.3, "gdefault": rng.random() < 0.3, "unsized": False, "disc": rng.random() < 0.5, "vattr": rng.random() < 0.25}
    if kind == "struct" and rng.random() < 0.06 and variants[0]["style"] != "unit":
        # a packed struct (the std derives accept it when every field is Copy)
        spec["type_attr"] = rng.choice(["#[repr(packed)]", "#[repr(C, packed(2))]"])
        spec["gen"] = "none"
        variants[0]["fields"] = [rng.choice(["u8", "i32", "pair"] + (["f64"] if noeq_ok else [])) for _ in range(rng.randint(1, 3))]
    if kind == "enum":
        if "Default" in traits:
            units = [i for i, v in enumerate(variants) if v["style"] == "unit"]
            if not units:
                if not variants:
                    spec["traits"] = [t for t in traits if t != "Default"] or ["Clone"]
                else:
                    variants[rng.randrange(len(variants))] = {"style": "unit", "fields": []}
                    units = [i for i, v in enumerate(variants) if v["style"] == "unit"]
            spec["dv"] = rng.choice(units) if units else None
        if spec["type_attr"] == "#[repr(C)]" and not variants:
            spec["type_attr"] = ""
    else:
        # an unsized last field, observed through Box<Ty<[u8]>>
        if rng.random() < 0.12 and variants[0]["style"] != "unit" and variants[0]["fields"]:
            spec["unsized"] = True
            spec["gen"] = "U"
            variants[0]["fields"] = [f for f in variants[0]["fields"] if f not in ("T", "optT", "arr", "str", "refaT", "refbT")] + ["U"]
            spec["traits"] = [t for t in spec["traits"] if t not in ("Clone", "Default")] or ["Debug"]
            spec["where"] = False
            spec["gdefault"] = False
    used = {f for v in variants for f in v["fields"]}
    g = spec["gen"]
    if g != "U":
        g2 = ""
        if "a" in g and ("str" in used or "refaT" in used):
            g2 += "a"
        if "b" in g and "refbT" in used:
            g2 += "b"
        if "T" in g and used & {"T", "optT", "refaT", "refbT", "pjT", "vpjT", "qpjT"}:
            g2 += "T"
        if "N" in g and "arr" in used:
            g2 += "N"
        spec["gen"] = g2 or "none"
    return spec


def fname(spec, vi, i):
    if spec["raw"] and i < len(RAW_FIELDS) and (vi + i) % 2 == 0:
        return RAW_FIELDS[i]
    return f"f{i}"


def vname(spec, vi):
    if spec["raw"] and vi < len(RAW_VARIANTS) and vi % 2 == 1:
        return RAW_VARIANTS[vi]
    return f"V{vi}"


def tname(spec):
    return "r#Ty" if spec["raw"] and spec["kind"] == "struct" else "Ty"


def ftext(f):
    if f == "U":
        return "U"
    return FT[f][0]


def generics(spec):
    g = spec["gen"]
    if g == "U":
        return "<U: ?::core::marker::Sized>", "<[u8]>", ""
    ps, inst = [], []
    if "a" in g:
        ps.append("'a")
        inst.append("'static")
    if "b" in g:
        ps.append("'b")
        inst.append("'static")
    if "T" in g:
        ps.append("T" + (": Pj" if spec.get("pj") == "inline" else "") + (" = u8" if spec["gdefault"] else ""))
        inst.append("u8")
    if "N" in g:
        ps.append("const N: ::core::primitive::usize" + (" = 2" if spec["gdefault"] else ""))
        inst.append("2")
        if spec.get("const_first") and "T" in g and not spec["gdefault"]:
            # the const parameter declared in front of the type parameter
            ps[-2], ps[-1] = ps[-1], ps[-2]
            inst[-2], inst[-1] = inst[-1], inst[-2]
    wh = ""
    if spec["where"] and "T" in g:
        wh = " where T: ::core::marker::Copy"
    if spec.get("pj") == "where" and "T" in g:
        wh = (wh + "," if wh else " where") + " T: Pj"
    if not ps:
        return "", "", ""
    return "<" + ", ".join(ps) + ">", "<" + ", ".join(inst) + ">", wh


def type_text(spec, which):
    gd, gi, wh = generics(spec)
    tl = ", ".join(spec["traits"])
    if which == "dx":
        head = f"#[::derive_ex::derive_ex({tl})]\n" if spec["entry"] == "attr" else f"#[derive(::derive_ex::Ex)]\n#[derive_ex({tl})]\n"
    else:
        head = f"#[derive({tl})]\n"
    head += spec["type_attr"] + "\n" if spec["type_attr"] else ""
    tn = tname(spec)
    bodies = []
    for vi, v in enumerate(spec["variants"]):
        fs = []
        for i, f in enumerate(v["fields"]):
            pk = "pub " if spec["kind"] == "struct" else ""
            fs.append(f"{pk}{fname(spec, vi, i)}: {ftext(f)}" if v["style"] == "named" else f"{pk}{ftext(f)}")
        if v["style"] == "named":
            bodies.append("{ " + ", ".join(fs) + " }")
        elif v["style"] == "tuple":
            bodies.append("(" + ", ".join(fs) + ")")
        else:
            bodies.append("")
    if spec["kind"] == "struct":
        b = bodies[0]
        st = spec["variants"][0]["style"]
        if st == "named":
            return head + f"pub struct {tn}{gd}{wh} {b}"
        return head + f"pub struct {tn}{gd}{b}{wh};"
    vs = []
    # explicit discriminants (only on field-less enums, and never together with PartialOrd / Ord: the property exempts those)
    disc = spec.get("disc") and all(v["style"] == "unit" for v in spec["variants"]) and not any(t in spec["traits"] for t in ("PartialOrd", "Ord"))
    for vi, b in enumerate(bodies):
        m = "#[default] " if spec.get("dv") == vi else ""
        if spec.get("vattr") and vi % 2 == 1 and spec.get("dv") != vi:
            m = "#[non_exhaustive] " + m      # a foreign attribute on a variant must not change what is derived
        d = f" = {(len(bodies) - vi) * 3}" if disc else ""
        vs.append(f"{m}{vname(spec, vi)}{b}{d}")
    return head + f"pub enum {tn}{gd}{wh} {{ " + ", ".join(vs) + " }"


def ctor(spec, mod, vi, which):
    v = spec["variants"][vi]
    tn = tname(spec)
    head = f"{mod}::{tn}" if spec["kind"] == "struct" else f"{mod}::{tn}::{vname(spec, vi)}"
    vals = []
    for i, f in enumerate(v["fields"]):
        if f == "U":
            vals.append(["[1u8, 2u8]", "[1u8, 3u8]"][which % 2])
        else:
            dom = FT[f][1]
            vals.append(dom[(which + i) % len(dom)])
    if v["style"] == "named":
        return head + " { " + ", ".join(f"{fname(spec, vi, i)}: {x}" for i, x in enumerate(vals)) + " }"
    if v["style"] == "tuple":
        return head + "(" + ", ".join(vals) + ")"
    return head


def obs_code(spec, mod):
    gd, gi, wh = generics(spec)
    tn = tname(spec)
    T = f"{mod}::{tn}{gi}"
    out = []
    tr = spec["traits"]
    vals = []
    for vi, v in enumerate(spec["variants"]):
        for which in range(2 if v["fields"] else 1):
            vals.append(ctor(spec, mod, vi, which))
    if spec["unsized"]:
        out.append(f"let vals: ::std::vec::Vec<::std::boxed::Box<{T}>> = vec![" + ", ".join(f"::std::boxed::Box::new({x}) as ::std::boxed::Box<{T}>" for x in vals) + "];")
        deref = "&**"
    else:
        out.append(f"let vals: ::std::vec::Vec<{T}> = vec![" + ", ".join(vals) + "];")
        deref = "&*"
    if not vals:
        out.append(f'::dxrt::ev!("novalues", "m" => "{mod}");')
    ref = "(&**a)" if spec["unsized"] else "a"
    refb = "(&**b)" if spec["unsized"] else "b"
    if "Debug" in tr:
        out.append(f'for (i, a) in vals.iter().enumerate() {{ ::dxrt::ev!("dbg", "m" => "{mod}", "i" => i, "s" => format!("{{:?}}", {ref}), "p" => format!("{{:#?}}", {ref}), "x" => format!("{{:#x?}}", {ref}), "w" => format!("{{:>+7.2?}}", {ref})); }}')
    if "Clone" in tr and "Debug" in tr:
        out.append(f'for (i, a) in vals.iter().enumerate() {{ let c = ::core::clone::Clone::clone(a); let mut d = ::core::clone::Clone::clone(&vals[0]); ::core::clone::Clone::clone_from(&mut d, a); ::dxrt::ev!("clone", "m" => "{mod}", "i" => i, "s" => format!("{{:?}}", c), "cf" => format!("{{:?}}", d)); }}')
    elif "Clone" in tr:
        out.append(f'for (i, a) in vals.iter().enumerate() {{ let _c = ::core::clone::Clone::clone(a); ::dxrt::ev!("clone", "m" => "{mod}", "i" => i, "s" => "", "cf" => ""); }}')
    if "Default" in tr:
        dbg = 'format!("{:?}", d)' if "Debug" in tr else '::std::string::String::new()'
        eq0 = " ".join(f'if ::core::cmp::PartialEq::eq(&d, a) {{ which.push(i as i64); }}' for _ in [0]) if "PartialEq" in tr else ""
        out.append(f'{{ let d: {T} = ::core::default::Default::default(); let mut which: ::std::vec::Vec<i64> = ::std::vec::Vec::new(); for (i, a) in vals.iter().enumerate() {{ {eq0} }} ::dxrt::ev!("default", "m" => "{mod}", "s" => {dbg}, "eqs" => format!("{{:?}}", which)); }}')
    if "PartialEq" in tr:
        out.append(f'{{ let mut s = ::std::string::String::new(); for a in &vals {{ for b in &vals {{ s.push(::dxrt::bool_c(::core::cmp::PartialEq::eq({ref}, {refb}))); }} }} ::dxrt::ev!("mat", "m" => "{mod}", "op" => "eq", "v" => s); }}')
    if "PartialOrd" in tr:
        out.append(f'{{ let mut s = ::std::string::String::new(); for a in &vals {{ for b in &vals {{ s.push(::dxrt::pord_c(::core::cmp::PartialOrd::partial_cmp({ref}, {refb}))); }} }} ::dxrt::ev!("mat", "m" => "{mod}", "op" => "pcmp", "v" => s); }}')
    if "Ord" in tr:
        out.append(f'{{ let mut s = ::std::string::String::new(); for a in &vals {{ for b in &vals {{ s.push(::dxrt::ord_c(::core::cmp::Ord::cmp({ref}, {refb}))); }} }} ::dxrt::ev!("mat", "m" => "{mod}", "op" => "cmp", "v" => s); }}')
    if "Hash" in tr:
        out.append(f'{{ let mut l = ::std::vec::Vec::new(); for a in &vals {{ l.push(::dxrt::RecHasher::of({ref})); }} ::dxrt::ev!("feeds", "m" => "{mod}", "l" => l); }}')
    if any(f == "cnt" for v in spec["variants"] for f in v["fields"]):
        # the calls a comparison makes on its fields (traced by Cnt), per pair of values
        # (not for `==`: the std derive compares scalar fields first, an optimisation derive_ex need not copy)
        for t, call in (("PartialOrd", f"::core::cmp::PartialOrd::partial_cmp({ref}, {refb})"), ("Ord", f"::core::cmp::Ord::cmp({ref}, {refb})")):
            if t in tr:
                out.append(f'{{ let mut l: ::std::vec::Vec<::std::string::String> = ::std::vec::Vec::new(); for a in &vals {{ for b in &vals {{ let _ = ::dxrt::take_trace(); let _ = {call}; l.push(::dxrt::take_trace().join(",")); }} }} ::dxrt::ev!("calls", "m" => "{mod}", "op" => "{t}", "l" => l); }}')
    if "T" in spec["gen"] and spec["gen"] != "U":
        # to which instantiations does each impl apply?  T := a float (no Eq / Ord / Hash), T := a PartialEq-only Copy type
        paths = {"Clone": "::core::clone::Clone", "Debug": "::core::fmt::Debug", "Default": "::core::default::Default",
                 "PartialEq": "::core::cmp::PartialEq", "Eq": "::core::cmp::Eq", "PartialOrd": "::core::cmp::PartialOrd",
                 "Ord": "::core::cmp::Ord", "Hash": "::core::hash::Hash"}
        for k, targ in enumerate(("f32", "::dxrt::P")):
            gi2 = gi.replace("u8", targ, 1) if "'static" not in gi else gi.replace("'static, u8", f"'static, {targ}", 1)
            bits = " ".join(f"s.push(::dxrt::bool_c(::dxrt::probe_impl!({mod}::{tn}{gi2}: {paths[t]})));" for t in tr)
            out.append(f'{{ let mut s = ::std::string::String::new(); {bits} ::dxrt::ev!("appl", "m" => "{mod}", "i" => {k}, "v" => s); }}')
    return "{\n" + "\n".join(out) + "\n}"


def render(spec, with_dx=True):
    out = []
    # spec["scope"]: items named like the type's parameters, in scope next to the definition (type namespace)
    pre = spec.get("scope") or ""
    if with_dx:
        out += ["pub mod dx {", pre, type_text(spec, "dx"), "}"]
    out += ["pub mod sd {", pre, type_text(spec, "sd"), "}", "pub fn run() {"]
    if with_dx:
        out.append(obs_code(spec, "dx"))
    out.append(obs_code(spec, "sd"))
    out.append("}")
    return "\n".join(out)


def check_case(spec, events):
    bad = []
    by = {"dx": {}, "sd": {}}
    for e in events:
        m = e.get("m")
        if m in by:
            key = (e["k"], e.get("i"), e.get("op"))
            by[m][key] = e
    if set(by["dx"]) != set(by["sd"]):
        bad.append(("missing-observations", sorted(map(str, by["sd"]))[:5], sorted(map(str, by["dx"]))[:5]))
    n = 0
    for key, es in by["sd"].items():
        ed = by["dx"].get(key)
        if ed is None:
            continue
        n += 1
        k = key[0]
        if k == "dbg":
            if ed["s"] != es["s"]:
                bad.append(("debug-compact", es["s"], ed["s"]))
            elif ed["p"] != es["p"]:
                bad.append(("debug-pretty", es["p"], ed["p"]))
            elif ed.get("x") != es.get("x") or ed.get("w") != es.get("w"):
                bad.append(("debug-flags", (es.get("x"), es.get("w")), (ed.get("x"), ed.get("w"))))
        elif k == "clone":
            if ed["s"] != es["s"] or ed["cf"] != es["cf"]:
                bad.append(("clone", (es["s"], es["cf"]), (ed["s"], ed["cf"])))
        elif k == "default":
            if ed["s"] != es["s"] or ed["eqs"] != es["eqs"]:
                bad.append(("default", (es["s"], es["eqs"]), (ed["s"], ed["eqs"])))
        elif k == "mat":
            if ed["v"] != es["v"]:
                bad.append((f"matrix-{key[2]}", es["v"], ed["v"]))
        elif k == "calls":
            if ed["l"] != es["l"]:
                at = next(i for i, (x, y) in enumerate(zip(ed["l"], es["l"])) if x != y)
                bad.append((f"field-comparisons-made-{key[2]}", f"pair {at}: {es['l'][at]}", ed["l"][at]))
        elif k == "appl":
            if ed["v"] != es["v"]:
                bad.append(("impl-applies-to-other-instantiations", es["v"], ed["v"]))
        elif k == "feeds":
            # Hash only has to stay consistent with ==
            eq = by["dx"].get(("mat", None, "eq"))
            if eq is not None:
                l = ed["l"]
                m = len(l)
                for i in range(m):
                    for j in range(m):
                        if eq["v"][i * m + j] == "1" and l[i] != l[j]:
                            bad.append(("hash-inconsistent-with-eq", (i, j), (l[i], l[j])))
                            break
    return bad, n


def describe(spec):
    return (f"{spec['kind']} gen={spec['gen']}{' raw' if spec['raw'] else ''}{' unsized' if spec['unsized'] else ''} {spec['type_attr']} "
            f"derive({'+'.join(spec['traits'])}) " + "|".join(v["style"] + "[" + ",".join(v["fields"]) + "]" for v in spec["variants"]))


def feature_tags(spec):
    t = [spec["kind"]]
    if not spec["variants"]:
        t.append("empty-enum")
    if spec["raw"]:
        t.append("raw-ident")
    if spec["unsized"]:
        t.append("unsized-tail")
    if "packed" in spec["type_attr"]:
        t.append("packed")
    return "+".join(t)


def core():
    specs = []
    base = {"raw": False, "gen": "none", "entry": "attr", "type_attr": "", "where": False, "gdefault": False, "unsized": False}
    specs_disc = dict(base, kind="enum", disc=True, traits=["Clone", "Debug", "Default", "PartialEq", "Eq", "Hash"], dv=1, type_attr="#[repr(u8)]",
                      variants=[{"style": "unit", "fields": []}, {"style": "unit", "fields": []}, {"style": "unit", "fields": []}])
    # the empty enum, every trait that std accepts on it
    for tr in (["Clone"], ["Debug"], ["PartialEq"], ["Clone", "Debug", "PartialEq", "Eq", "PartialOrd", "Ord", "Hash"]):
        for entry in ("attr", "derive"):
            specs.append(dict(base, kind="enum", variants=[], traits=tr, entry=entry))
    specs.append(specs_disc)
    # raw identifiers
    specs.append(dict(base, kind="struct", raw=True, traits=list(ALL8), variants=[{"style": "named", "fields": ["u8", "string", "i32"]}]))
    specs.append(dict(base, kind="enum", raw=True, traits=list(ALL8), dv=0, entry="derive", variants=[
        {"style": "unit", "fields": []}, {"style": "named", "fields": ["u8", "opt"]}, {"style": "tuple", "fields": ["vec"]}, {"style": "unit", "fields": []}]))
    # unsized tail
    for tr in (["Debug"], ["PartialEq", "Eq", "PartialOrd", "Ord", "Hash"], ["Debug", "PartialEq", "Hash"]):
        for st in ("named", "tuple"):
            specs.append(dict(base, kind="struct", gen="U", unsized=True, traits=tr, variants=[{"style": st, "fields": ["u8", "U"]}]))
    # all traits on every struct kind / a five-variant enum with generics, lifetimes, const params, defaults, where
    for st in ("unit", "tuple", "named"):
        specs.append(dict(base, kind="struct", traits=list(ALL8), variants=[{"style": st, "fields": [] if st == "unit" else ["u8", "string"]}]))
    specs.append(dict(base, kind="enum", gen="TN", where=True, gdefault=True, traits=list(ALL8), dv=4, entry="derive", type_attr="#[repr(C)]", variants=[
        {"style": "tuple", "fields": ["T"]}, {"style": "named", "fields": ["optT", "arr"]}, {"style": "tuple", "fields": []},
        {"style": "named", "fields": []}, {"style": "unit", "fields": []}]))
    specs.append(dict(base, kind="struct", gen="aT", traits=["Clone", "Debug", "PartialEq", "Eq", "PartialOrd", "Ord", "Hash"],
                      type_attr="#[non_exhaustive]", variants=[{"style": "named", "fields": ["str", "T", "pair"]}]))
    # packed structs (listed known finding: generated code takes references to the fields)
    specs.append(dict(base, kind="struct", traits=list(ALL8), type_attr="#[repr(packed)]", variants=[{"style": "named", "fields": ["u8", "i32"]}]))
    specs.append(dict(base, kind="struct", traits=["Clone", "Debug", "PartialEq"], entry="derive", type_attr="#[repr(C, packed(2))]",
                      variants=[{"style": "tuple", "fields": ["u8", "pair", "i32"]}]))
    # a struct / a trait named like the const parameter in scope: `Ty<N>` in an impl header must still mean the parameter
    for k, sc in enumerate(("pub struct N;", "pub trait N {}", "pub type N = u8;")):
        specs.append(dict(base, kind="struct" if k % 2 == 0 else "enum", gen="N" if k else "TN", traits=list(ALL8), entry="attr" if k % 2 else "derive", scope=sc, disc=False, dv=0,
                          variants=[{"style": "unit", "fields": []}, {"style": "tuple", "fields": ["arr", "u8"] + ([] if k else ["T"])}][(0 if k % 2 else 1):]))
    specs.append(dict(base, kind="struct", gen="TN", traits=[t for t in ALL8 if t != "Default"], entry="attr", scope="pub struct N; pub trait T {}", const_first=True,
                      variants=[{"style": "named", "fields": ["arr", "T", "u8"]}]))
    specs.append(dict(base, kind="enum", gen="aTN", traits=list(ALL8), entry="derive", scope="pub type N = u8;", const_first=True, disc=False, dv=0,
                      variants=[{"style": "unit", "fields": []}, {"style": "tuple", "fields": ["T", "arr", "str"]}]))
    # field types equal up to the lifetime (`&'a T` next to `&'b T`: listed known finding); the same lifetime twice is fine
    no_default = [t for t in ALL8 if t != "Default"]
    specs.append(dict(base, kind="struct", gen="abT", traits=no_default, variants=[{"style": "tuple", "fields": ["refaT", "refbT"]}]))
    specs.append(dict(base, kind="enum", gen="abT", traits=["Clone", "Debug", "PartialEq"], entry="derive", disc=False,
                      variants=[{"style": "tuple", "fields": ["refaT"]}, {"style": "named", "fields": ["u8", "refbT"]}]))
    specs.append(dict(base, kind="struct", gen="aT", traits=no_default, variants=[{"style": "named", "fields": ["refaT", "u8", "refaT"]}]))
    # the type parameter reached only through a projection (`T::Out`, `Vec<T::Out>`, `<T as Pj>::Out`), alone and next to `T` itself
    k = 0
    for pj in ("inline", "where"):
        for fields in (["pjT"], ["u8", "vpjT"], ["string", "pjT", "pjT"], ["pjT", "T"], ["vpjT", "optT", "qpjT"]):
            k += 1
            specs.append(dict(base, kind="struct", gen="T", pj=pj, scope=PJ_SCOPE, traits=list(ALL8), entry="attr" if k % 2 else "derive", where=(k % 3 == 0),
                              variants=[{"style": "tuple" if k % 2 else "named", "fields": fields}]))
            specs.append(dict(base, kind="enum", gen="T", pj=pj, scope=PJ_SCOPE, traits=list(ALL8), entry="derive" if k % 2 else "attr", disc=False, dv=0,
                              gdefault=(k % 4 == 0), variants=[{"style": "unit", "fields": []}, {"style": "named" if k % 2 else "tuple", "fields": fields}]))
    return specs


def run(rep, tier, rng):
    specs = core()
    rep.count("core_types", len(specs))
    n0 = len(specs)
    while len(specs) < n0 + NRANDOM[tier]:
        specs.append(gen_spec(rng))
    cases = []
    for i, s in enumerate(specs):
        cases.append(C.Case(f"c{i}", render(s), {"spec": s}))
        cases.append(C.Case(f"k{i}", render(s, with_dx=False), {}))
    _, notes = C.run_cases(cases, "c12", header=HEADER, batch_size=60)
    for n in notes:
        rep.inconcl(n)
    by = {c.name: c for c in cases}
    sigs = {}
    for i, s in enumerate(specs):
        c, k = by[f"c{i}"], by[f"k{i}"]
        if "inconclusive" in (c.status, k.status):
            continue
        if k.status != "ok":
            rep.count("std_twin_rejected_too")   # outside the property's domain ("every shape the std derives accept")
            continue
        rep.nontrivial.add((s["kind"], tuple(s["traits"]), s["gen"], s["raw"], s["unsized"], tuple(v["style"] for v in s["variants"])))
        if c.status == "compile_fail":
            d = next((d for d in c.diags if d["level"] == "error" and d["in_derive_ex"]), None) or next(d for d in c.diags if d["level"] == "error")
            rep.evaluations += 1
            rep.count("dropin_compile_failures")
            tags = feature_tags(s)
            if "packed" in tags and d["code"] == "E0793":
                tags = "packed-struct"      # one signature for the listed finding, whatever else the type has
            if d["code"] == "E0283" and {"refaT", "refbT"} <= {f for v in s["variants"] for f in v["fields"]}:
                tags = "field-types-equal-up-to-lifetimes"      # listed finding: `&'a T` next to `&'b T`
            sigs.setdefault(f"C12|compile_fail|{d['code']}|{tags}", []).append(
                (c, f"std derive compiles, derive_ex does not ({d['code']}: {(d['message'] or '')[:160]}): {describe(s)}"))
            continue
        if any(e.get("k") == "panic" for e in c.events):
            sigs.setdefault("C12|panic", []).append((c, "panic: " + describe(s)))
            continue
        rep.count("types_run")
        bad, n = check_case(s, c.events)
        rep.evaluations += n
        rep.count("observation_pairs_compared", n)
        for b in bad:
            sigs.setdefault(f"C12|{b[0]}|{feature_tags(s)}", []).append((c, f"{b[0]}: std {str(b[1])[:200]} vs derive_ex {str(b[2])[:200]}: {describe(s)}"))
    for sig, lst in list(sigs.items())[:25]:
        c, what = lst[0]
        again = C.compile_single(c.code, header=HEADER)
        if (again.status == "compile_fail" and "compile_fail" in sig) or (again.status == "ok" and (check_case(c.meta["spec"], again.events)[0] or any(e.get("k") == "panic" for e in again.events))):
            rep.violation(sig, f"{what} [{len(lst)} cases]", {"spec": c.meta["spec"], "code": c.code})
        else:
            rep.inconcl(f"did not reproduce in isolation: {sig}")
    for c in (cases[2 * 14], cases[2 * (n0 + 3)]):
        rep.sample({"type": describe(c.meta["spec"]), "source": c.code[:500], "events": c.events[:2]})
    ok = next(c for c in cases if c.name.startswith("c") and c.status == "ok" and "Debug" in c.meta["spec"]["traits"] and c.meta["spec"]["variants"])
    ev = json.loads(json.dumps(ok.events))
    for e in ev:
        if e.get("k") == "dbg" and e["m"] == "dx":
            e["p"] += "?"
            break
    rep.canary = bool(check_case(ok.meta["spec"], ev)[0])
    rep.rule = ("type definitions from a shape grammar (unit/tuple/named structs; enums with 0-5 variants of mixed kinds; 0-4 fields; "
                "lifetime/type/const parameters with defaults and where-clauses; ?::core::marker::Sized tail observed through Box<Ty<[u8]>>; raw "
                "identifiers for type, field and variant names; repr(C)/non_exhaustive; a field type whose inherent methods shadow the trait methods) with random supertrait-closed subsets of the "
                "eight traits; the same definition is compiled once under derive_ex and once under the std derives (a std-only "
                "control decides whether the shape is in the property's domain) and Debug ({:?}, {:#?}), clone/clone_from, default, "
                "the ==/partial_cmp/cmp matrices over all value pairs are compared; Hash must be consistent with ==. evaluations = "
                "observation pairs compared + drop-in compile failures.")


def replay(rep, path):
    j = json.load(open(path))["replay"]
    c = C.compile_single(j["code"], header=HEADER)
    if c.status == "compile_fail" or (c.status == "ok" and check_case(j["spec"], c.events)[0]):
        print(f"VIOLATION property=C12 replay={path}")
        return 1
    print("replay: no violation")
    return 0
