"""C05 — documented misuse of comparison attributes is rejected; valid use is accepted.
E-exp exhaustive over the 3136-combination matrix + rustc cross-check on a sample."""
import json

from . import common as C
from . import cmpmodel as M

FLOOR = {"quick": 90000, "thorough": 90000}
ALL5 = "Ord, PartialOrd, Eq, PartialEq, Hash"
KEY = {a: "::dxrt::k(&$)" for a in M.ATTRS}
BY = {"ord": "::dxrt::by_cmp", "partial_ord": "::dxrt::by_pcmp", "eq": "::dxrt::by_eq",
      "partial_eq": "::dxrt::by_eq", "hash": "::dxrt::by_hash"}
PLACEMENTS = ["named", "tuple", "enum"]


FIELD_TYPES = ["()", "::core::marker::PhantomData<u8>", "(::dxrt::V,)", "[u8; 0]", "&'static str", "::core::option::Option<::dxrt::V>",
               # types that mention a parameter of the item (they get a where-predicate; the verdict is the same)
               "T", "::std::vec::Vec<T>", "[::dxrt::V; N]", "::core::option::Option<(T, [u8; N])>"]


def item_for(combo, placement, name="Ty", fty=None):
    attrs = " ".join(M.render_attrs(combo, KEY, BY))
    if fty is not None:
        # the attributed field has another type (the verdict does not depend on it); one shape is enough
        import re as _re
        ps = (["T"] if _re.search(r"\bT\b", fty) else []) + (["const N: usize"] if _re.search(r"\bN\b", fty) else [])
        g = ("<" + ", ".join(ps) + ">") if ps else ""
        return f"struct {name}{g} {{ f0: ::dxrt::V, {attrs} f1: {fty} }}" if placement != "enum" else f"enum {name}{g} {{ V0, V1({attrs} {fty}, ::dxrt::V) }}"
    # the attributed field is the first, the middle or the last one, depending on the combination
    pos = (hash(combo) & 0xFFFF) % 3 if False else sum(len(o) for o in combo) % 3
    a = [attrs if i == pos else "" for i in range(3)]
    if placement == "named":
        return f"struct {name} {{ {a[0]} f0: ::dxrt::V, {a[1]} f1: ::dxrt::V, {a[2]} f2: ::dxrt::V }}"
    if placement == "tuple":
        return f"struct {name}({a[0]} ::dxrt::V, {a[1]} ::dxrt::V, {a[2]} ::dxrt::V);"
    if pos == 2:
        return f"enum {name} {{ V1, V0({a[0]} ::dxrt::V, {a[1]} ::dxrt::V, {a[2]} ::dxrt::V) }}"
    return f"enum {name} {{ V0 {{ {a[0]} f0: ::dxrt::V, {a[1]} f1: ::dxrt::V, {a[2]} f2: ::dxrt::V }}, V1 }}"


def request(idx, combo, placement, entry, traits=ALL5, fty=None):
    item = item_for(combo, placement, fty=fty)
    if entry == "attr":
        return {"id": idx, "entry": "attr", "attr": traits, "item": item}
    return {"id": idx, "entry": "derive", "attr": "", "item": f"#[derive_ex({traits})] {item}"}


def judge(obs, combo, entry, traits):
    """Compare slot statuses with the model.  Returns list of (trait, expected, observed)."""
    if obs.get("status") != "ok" or not obs.get("parses"):
        return [("*", "expansion", obs.get("status", "?") + "/unparseable")]
    slots, rest = C.impl_slots(obs["items"], traits, skip_first_item=(entry == "attr"))
    bad = []
    for s in slots:
        exp = M.status(s["trait"], combo)
        if exp == "dontcare":
            continue
        got = {"impl": "accept", "error": "reject", "missing": "missing"}[s["status"]]
        if got == "accept":
            # the slot must really be this trait's impl
            it = s["items"][0] if s["items"] else {}
            if it.get("kind") != "impl" or it.get("trait") != s["trait"]:
                got = "wrong-item:" + str(it.get("kind")) + ":" + str(it.get("trait"))
        if got != exp:
            bad.append((s["trait"], exp, got))
    if rest:
        bad.append(("*", "no extra items", f"{len(rest)} extra items"))
    return bad


def sig_for(combo, trait, exp, got, placement, entry):
    return f"C05|{trait}:{exp}->{got}|" + ",".join(f"{a}={o}" for a, o in zip(M.ATTRS, combo) if o != "-")


def run(rep, tier, rng):
    combos = M.all_combos()
    traits = M.TRAITS
    reqs = []
    meta = []
    for combo in combos:
        for pl in PLACEMENTS:
            for entry in ("attr", "derive"):
                reqs.append(request(len(reqs), combo, pl, entry))
                meta.append((combo, pl, entry))
    obs = C.expand(reqs)
    dontcare = 0
    accepted_all = []
    obs_by = {}
    for o, (combo, pl, entry) in zip(obs, meta):
        obs_by[(combo, pl, entry)] = o
        rep.evaluations += 5
        exp = [M.status(t, combo) for t in traits]
        dontcare += exp.count("dontcare")
        if any(e == "reject" for e in exp):
            rep.nontrivial.add(combo)
        rep.count("points_accept", exp.count("accept"))
        rep.count("points_reject", exp.count("reject"))
        for (t, e, g) in judge(o, combo, entry, traits):
            rep.violation(sig_for(combo, t, e, g, pl, entry),
                          f"{pl}/{entry}: trait {t} expected {e}, expansion gave {g} for {M.render_attrs(combo, KEY, BY)}",
                          {"combo": list(combo), "placement": pl, "entry": entry, "trait": t, "expected": e, "observed": g,
                           "request": reqs[o["id"]]})
        if all(e == "accept" for e in exp):
            accepted_all.append((combo, pl, entry))
    rep.count("points_dontcare", dontcare)
    rep.exhaustive = True
    rep.sample({"combo": dict(zip(M.ATTRS, combos[1234])), "item": item_for(combos[1234], "named"),
                "model": {t: M.status(t, combos[1234]) for t in traits}})
    rep.sample({"combo": dict(zip(M.ATTRS, combos[2500])), "item": item_for(combos[2500], "enum"),
                "model": {t: M.status(t, combos[2500]) for t in traits}})

    # ---- subsets of derived traits: the verdict for a trait must not depend on its companions ----
    subsets = M.closed_subsets()
    sub_reqs, sub_meta = [], []
    pick = combos     # the full matrix is cheap in-process: both tiers enumerate it
    for combo in pick:
        for sub in subsets:
            if len(sub) == 5:
                continue
            pl = PLACEMENTS[(len(sub_reqs)) % 3]
            entry = "attr" if (len(sub_reqs) // 3) % 2 == 0 else "derive"
            # only attributes that the doc assigns to at least one derived trait are helpers; others are
            # foreign attributes (C14) and not part of this property
            if any(o != "-" and not any(t in sub for t in M.OWNS[a]) for a, o in zip(M.ATTRS, combo)):
                continue
            sub_reqs.append(request(len(sub_reqs), combo, pl, entry, ", ".join(sub)))
            sub_meta.append((combo, pl, entry, sub))
    sub_obs = C.expand(sub_reqs)
    for o, (combo, pl, entry, sub) in zip(sub_obs, sub_meta):
        rep.evaluations += len(sub)
        rep.count("subset_points", len(sub))
        for (t, e, g) in judge(o, combo, entry, sub):
            rep.violation(sig_for(combo, t, e, g, pl, entry) + "|derived=" + "+".join(sub),
                          f"{pl}/{entry}: deriving {sub}: trait {t} expected {e}, got {g} for {M.render_attrs(combo, KEY, BY)}",
                          {"combo": list(combo), "placement": pl, "entry": entry, "trait": t, "derived": sub,
                           "expected": e, "observed": g, "request": sub_reqs[o["id"]]})

    # ---- the attributed field's type: the accept / reject verdict must not depend on it ----
    ft_reqs, ft_meta = [], []
    for ci, combo in enumerate(combos):
        for ti, fty in enumerate(FIELD_TYPES):
            pl = "enum" if (ci + ti) % 3 == 0 else "named"
            entry = "attr" if (ci + ti) % 2 else "derive"
            ft_reqs.append(request(len(ft_reqs), combo, pl, entry, fty=fty))
            ft_meta.append((combo, pl, entry, fty))
    for o, (combo, pl, entry, fty) in zip(C.expand(ft_reqs), ft_meta):
        rep.evaluations += 5
        rep.count("field_type_points", 5)
        for (t, e, g) in judge(o, combo, entry, traits):
            rep.violation(sig_for(combo, t, e, g, pl, entry) + f"|field-type={fty}",
                          f"{pl}/{entry}: field of type `{fty}`: trait {t} expected {e}, expansion gave {g} for {M.render_attrs(combo, KEY, BY)}",
                          {"combo": list(combo), "placement": pl, "entry": entry, "trait": t, "expected": e, "observed": g,
                           "request": ft_reqs[o["id"]]})

    # ---- an explicit bound(..) in effect (shared, or on every trait): the accept / reject verdict must not depend on it ----
    bd_reqs, bd_meta = [], []
    for ci, combo in enumerate(combos):
        form = ci % 3
        tl = [ALL5 + ", bound()", ", ".join(t + "(bound())" for t in traits), ALL5 + ", bound(..)"][form]
        pl = PLACEMENTS[ci % 3]
        entry = "attr" if (ci // 3) % 2 else "derive"
        bd_reqs.append(request(len(bd_reqs), combo, pl, entry, tl))
        bd_meta.append((combo, pl, entry, form))
    for o, (combo, pl, entry, form) in zip(C.expand(bd_reqs), bd_meta):
        rep.evaluations += 5
        rep.count("explicit_bound_points", 5)
        for (t, e, g) in judge(o, combo, entry, traits):
            rep.violation(sig_for(combo, t, e, g, pl, entry) + "|with-explicit-bound",
                          f"{pl}/{entry}: with an explicit bound(..) in effect (form {form}): trait {t} expected {e}, expansion gave {g} for {M.render_attrs(combo, KEY, BY)}",
                          {"combo": list(combo), "placement": pl, "entry": entry, "trait": t, "expected": e, "observed": g,
                           "request": bd_reqs[o["id"]]})

    # ---- misplaced ignore/reverse/key/by on a type or a variant ----
    mis_reqs, mis_meta = [], []
    ARGS = {"ignore": "ignore", "reverse": "reverse", "key": "key = ::dxrt::k(&$)", "by": "by = ::dxrt::by_cmp"}
    for a in M.ATTRS:
        for argname, arg in ARGS.items():
            # (`reverse` means nothing for eq / partial_eq / hash; on a type or variant it is refused like everywhere)
            for where in ("type", "variant"):
              for deco in ("{}", "bound(), {}", "{}, bound(..)", "bound(u8: Copy, ..), {}", "{}, bound(u8)"):
                for tr in [ALL5] + M.OWNS[a]:
                    for entry in ("attr", "derive"):
                        h = f"#[{a}({deco.format(arg)})]"
                        if where == "type":
                            item = f"{h} struct Ty {{ f0: ::dxrt::V }}" if len(mis_reqs) % 2 else f"{h} enum Ty {{ V0(::dxrt::V), V1 }}"
                        else:
                            item = f"enum Ty {{ {h} V0(::dxrt::V), V1 }}"
                        if entry == "attr":
                            mis_reqs.append({"id": len(mis_reqs), "entry": "attr", "attr": tr, "item": item})
                        else:
                            mis_reqs.append({"id": len(mis_reqs), "entry": "derive", "attr": "", "item": f"#[derive_ex({tr})] {item}"})
                        mis_meta.append((a, argname + ("" if deco == "{}" else "+bound"), where, tr, entry))
    mis_obs = C.expand(mis_reqs)
    for o, (a, argname, where, tr, entry) in zip(mis_obs, mis_meta):
        rep.evaluations += 1
        rep.count("misplaced_points")
        errs = [it for it in o.get("items", []) if it["kind"] == "compile_error"] if o.get("status") == "ok" else []
        if not errs:
            rep.violation(f"C05|misplaced:{a}({argname}) on {where}|derived={tr}",
                          f"`#[{a}({argname})]` on a {where} is not answered by a compile_error! when deriving {tr} ({entry})",
                          {"request": mis_reqs[o["id"]], "attr": a, "arg": argname, "where": where, "derived": tr})
        if entry == "attr" and o.get("status") == "ok":
            first = (o.get("items") or [{}])[0]
            if first.get("kind") not in ("struct", "enum"):
                rep.violation(f"C05|misplaced:item-lost|{where}", "item not re-emitted next to the error",
                              {"request": mis_reqs[o["id"]]})

    # ---- canary: the judge must notice a flipped model cell ----
    c = next(cb for cb in combos if M.status("Ord", cb) == "reject" and M.status("PartialEq", cb) == "accept")
    o = C.expand([request(0, c, "named", "attr")])[0]
    orig = M.status

    def flipped(t, cb):
        s = orig(t, cb)
        return {"accept": "reject", "reject": "accept"}.get(s, s) if t == "Ord" else s
    M.status = flipped
    try:
        rep.canary = len(judge(o, c, "attr", traits)) > 0
    finally:
        M.status = orig

    # ---- rustc cross-check on a sample (real proc-macro, real diagnostics) ----
    n = 150 if tier == "quick" else 1500
    rejecting = [m for m in meta if any(M.status(t, m[0]) == "reject" for t in traits)]
    sample = rng.sample(rejecting, min(n * 2 // 3, len(rejecting))) + rng.sample(accepted_all, min(n // 3, len(accepted_all)))
    cases = []
    for i, (combo, pl, entry) in enumerate(sample):
        item = item_for(combo, pl)
        if entry == "attr":
            code = f"#[::derive_ex::derive_ex({ALL5})]\n{item}"
        else:
            code = f"#[derive(::derive_ex::Ex)]\n#[derive_ex({ALL5})]\n{item}"
        cases.append(C.Case(f"c{i}", code, {"combo": combo, "pl": pl, "entry": entry}))
    _, notes = C.run_cases(cases, "c05", header="#![allow(dead_code, unused)]", batch_size=50, runnable=False)
    for nte in notes:
        rep.inconcl(nte)
    for cs in cases:
        if cs.status == "inconclusive":
            continue
        combo = cs.meta["combo"]
        exp_rej = [t for t in traits if M.status(t, combo) == "reject"]
        dc = [t for t in traits if M.status(t, combo) == "dontcare"]
        # derive-ex's own errors carry the user's span (no expansion info); they are recognised by their
        # text: exactly the compile_error! messages that the in-process expansion of the same input contains
        o = obs_by[(combo, cs.meta["pl"], cs.meta["entry"])]
        msgs = [it.get("msg") for it in o.get("items", []) if it["kind"] == "compile_error"]
        own = [d for d in cs.diags if d["level"] == "error" and d["code"] is None and d["message"] in msgs]
        rep.evaluations += 1
        rep.count("rustc_crosscheck_cases")
        if dc:
            continue
        if len(own) != len(exp_rej):
            rep.violation(f"C05|rustc:{len(exp_rej)}-rejections-expected-{len(own)}-reported|" + ",".join(
                              f"{a}={o}" for a, o in zip(M.ATTRS, combo) if o != "-"),
                          f"rustc reports {len(own)} derive_ex errors, model expects {len(exp_rej)} ({exp_rej}) for "
                          f"{M.render_attrs(combo, KEY, BY)} [{cs.meta['pl']}/{cs.meta['entry']}]: "
                          + "; ".join((d['message'] or '')[:80] for d in own),
                          {"code": cs.code, "diags": cs.diags[:6]})
    rep.rule = ("exhaustive: 3136 combinations of {ord,partial_ord}x{-,ignore,reverse,key,by,reverse+key,reverse+by} and "
                "{eq,partial_eq,hash}x{-,ignore,key,by} x 5 traits x {named,tuple,enum-variant field} x {attr,derive} = 94080 "
                "points judged against the documented accept/reject model (slot per trait: impl vs compile_error!); plus "
                "supertrait-closed subsets of derived traits, misplaced arguments on types/variants, and a rustc "
                "cross-check of sampled points with the real proc-macro. distinct_nontrivial = distinct combinations in "
                "which the model rejects at least one trait. don't-care points (doc vs C02 pull in opposite directions) "
                "are counted, not judged.")
    rep.assumptions = ["`partial_eq` does not count as affecting Eq (the repository's own trybuild cases eq_with_partial_eq_* fix that reading)",
                       "28x6 points where only hash(key|by) customises and the trait is not Hash, and hash(ignore) on a field that == compares, are don't-care"]


def replay(rep, path):
    j = json.load(open(path))["replay"]
    if "request" in j:
        o = C.expand([j["request"]])[0]
        if "combo" in j:
            traits = j.get("derived") or M.TRAITS
            bad = judge(o, tuple(j["combo"]), j["entry"], traits)
            if bad:
                print(f"VIOLATION property=C05 replay={path}\n  {bad}")
                return 1
        else:
            errs = [it for it in o.get("items", []) if it["kind"] == "compile_error"]
            if not errs:
                print(f"VIOLATION property=C05 replay={path}\n  no compile_error")
                return 1
    print("replay: no violation")
    return 0
