"""C15 — same impls via either entry point, merged or split lists, any co-derived set (E-exp, metamorphic)."""
import json

from . import common as C
from . import cmpmodel as M
from . import gens as G

FLOOR = {"quick": 10000, "thorough": 150000}
COUNT = {"quick": 5000, "thorough": 80000}   # base items; each yields several relations


def trait_of(elem):
    return elem.split("(")[0].strip()


def req_attr(i, attr, text):
    return {"id": i, "entry": "attr", "attr": attr, "item": text}


# (no `#[allow(..)]` here: the item's own allow attributes are copied onto the generated impls, so the two sides of a relation
# must carry the same ones)
GAPS = ["", "", "#[must_use] ", "#[doc = \" gap\"] ", "#[cfg_attr(all(), allow(unused))] ", "#[doc = \" a\"] #[repr(C)] "]


def attr_run(attrs, rng=None, lead=False):
    """`#[derive_ex(..)]` attributes in order; with rng, foreign attributes are put between (and, with lead, before) them:
    the lists of one item need not be adjacent."""
    out = rng.choice(GAPS) if (rng and lead) else ""
    for k, a in enumerate(attrs):
        if k and rng:
            out += rng.choice(GAPS)
        out += f"#[derive_ex({a})] "
    return out


def req_derive(i, attrs, text, rng=None):
    return {"id": i, "entry": "derive", "attr": "", "item": attr_run(attrs, rng) + text}


def generated(o, entry):
    if o.get("status") != "ok" or not o.get("parses"):
        return None
    items = o["items"]
    if entry == "attr":
        items = items[1:]
    return [x["text"] for x in items]


def slots_of(o, entry, traits):
    if o.get("status") != "ok" or not o.get("parses"):
        return None
    items = o["items"][1:] if entry == "attr" else o["items"]
    if len(items) == 1 and items[0]["kind"] == "compile_error" and len(traits) > 1:
        return "global"
    s, rest = C.impl_slots(items, traits)
    if rest:
        return None
    return {x["trait"]: (x["status"], [y["text"] for y in x["items"]], [y.get("trait") for y in x["items"]]) for x in s}


def activates_helper(item, base_traits, extra):
    """True if some helper attribute on the item belongs to none of the base traits but to an added one
    (then the added trait legitimately changes how the item is read), or touches a don't-care pairing."""
    for a in G.all_attrs(item):
        o = a["owner"]
        if not o or o == "derive_ex":
            if o == "derive_ex":
                # field/variant level derive_ex(Trait(..)) naming an added trait is harmless for base traits
                pass
            continue
        owns = M.OWNS[o]
        if not any(t in base_traits for t in owns) and any(t in extra for t in owns):
            return True
        for (h, t) in M.OWNS_DONTCARE:
            if o == h and (t in extra or t in base_traits):
                return True
    return False


def compiled_split_programs():
    """Split lists as rustc sees them: the second list is written with another spelling of the macro's path (qualified, through
    an alias) - the macro cannot merge what it does not recognise, rustc expands the lists one after the other.  Each program
    holds the merged list and the spellings side by side and observes the derived impls at run time."""
    out = []
    S = "{ #[ord(key = $.abs())] pub a: i32, #[ord(ignore)] pub b: u8, pub c: u8 }"
    E_ = "{ A(#[ord(key = $ % 2, reverse)] u8), B, C { #[ord(ignore)] x: u8, y: u8 } }"
    for kind, body, vals in (("struct", S, ["S { a: 1, b: 0, c: 1 }", "S { a: -1, b: 5, c: 1 }", "S { a: 2, b: 0, c: 0 }"]),
                             ("enum", E_, ["S::A(1)", "S::A(3)", "S::A(2)", "S::B", "S::C { x: 1, y: 2 }", "S::C { x: 9, y: 2 }"])):
        kw = f"pub {kind} S {body}"
        first, second = ("PartialEq", "PartialOrd, Hash") if kind == "struct" else ("PartialEq, Eq", "PartialOrd, Ord, Hash")
        obs = ("pub fn obs() -> ::std::string::String { let v = [" + ", ".join(vals) + "]; let mut o = ::std::string::String::new(); "
               "for a in v.iter() { o += &::dxrt::RecHasher::of(a); for b in v.iter() { o += &format!(\"{}{:?};\", (a == b) as u8, a.partial_cmp(b)); } } o }")
        mods = {
            "merged": f"#[::derive_ex::derive_ex({first}, {second})] {kw}",
            "bare": f"use ::derive_ex::derive_ex; #[derive_ex({first})] #[derive_ex({second})] {kw}",
            "qualified": f"#[::derive_ex::derive_ex({first})] #[::derive_ex::derive_ex({second})] {kw}",
            "alias": f"use ::derive_ex::derive_ex as dx; #[dx({first})] #[dx({second})] {kw}",
        }
        code = "\n".join(f"pub mod {m} {{ {t}\n{obs} }}" for m, t in mods.items())
        code += "\npub fn run() { " + " ".join(f'::dxrt::ev!("split", "m" => "{m}", "o" => {m}::obs());' for m in mods) + " }"
        out.append((kind, code))
    return out


def judge_split(c):
    """-> list of (spelling, what) that differ from the merged list."""
    ev = {e["m"]: e["o"] for e in c.events if e.get("k") == "split"}
    if c.status != "ok" or "merged" not in ev:
        return None
    return [(m, f"merged list and `{m}` split lists behave differently") for m in ("bare", "qualified", "alias") if ev.get(m) != ev["merged"]]


def run(rep, tier, rng):
    n = COUNT[tier]
    reqs = []
    rel = []   # (kind, idA, idB, info)

    def add(r):
        r["id"] = len(reqs)
        reqs.append(r)
        return r["id"]

    bases = []
    for _ in range(n):
        item, derived = G.gen_type_item(rng)
        elems, shared = G.gen_trait_args(rng, derived)
        if rng.random() < 0.1:
            shared.append("dump")
        text = G.render(item)
        traits = [trait_of(e) for e in elems]
        full = ", ".join(elems + shared)
        a = add(req_attr(0, full, text))
        d = add(req_derive(0, [full], text))
        rel.append(("entry", a, d, {"traits": traits}))
        # splits (shared arguments replicated into every part)
        if len(elems) >= 2:
            for _k in range(2):
                cut = sorted(rng.sample(range(1, len(elems)), min(len(elems) - 1, rng.choice([1, 1, 2]))))
                parts = [elems[i:j] for i, j in zip([0] + cut, cut + [len(elems)])]
                pa = [", ".join(p + shared) for p in parts]
                s1 = add(req_derive(0, pa, text, rng))
                rel.append(("split-derive", d, s1, {"traits": traits, "parts": pa}))
                s2 = add({"entry": "attr", "attr": pa[0], "item": attr_run(pa[1:], rng, lead=True) + text})
                rel.append(("split-attr", a, s2, {"traits": traits, "parts": pa}))
        # split lists whose parts carry DIFFERENT shared arguments: every part must expand as it does alone
        if len(elems) >= 2 and "dump" not in shared:
            cut = rng.randrange(1, len(elems))
            parts = [elems[:cut], elems[cut:]]
            tr_parts = [[trait_of(e) for e in p] for p in parts]
            if not activates_helper(item, tr_parts[0], tr_parts[1]) and not activates_helper(item, tr_parts[1], tr_parts[0]):
                sh = [[G.rand_bound(rng)] if rng.random() < 0.6 else [] for _ in parts]
                if rng.random() < 0.2:
                    sh[rng.randrange(2)].append("dump")
                pa = [", ".join(p + x) for p, x in zip(parts, sh)]
                use_attr = rng.random() < 0.5
                if use_attr:
                    whole = add({"entry": "attr", "attr": pa[0], "item": attr_run(pa[1:], rng, lead=True) + text})
                    alone = [add(req_attr(0, pa[0], text)), add(req_attr(0, pa[1], text))]
                else:
                    whole = add(req_derive(0, pa, text, rng))
                    alone = [add(req_derive(0, [pa[0]], text)), add(req_derive(0, [pa[1]], text))]
                rel.append(("split-independent", whole, alone, {"traits": traits, "parts": pa}))
        # supersets and permutations: per-trait slots must not change
        pool = G.STRUCT_TRAITS if item["kind"] == "struct" else G.ENUM_TRAITS
        extra = [t for t in rng.sample(pool, min(3, len(pool))) if t not in traits][:rng.randint(1, 3)]
        if item["kind"] == "enum" and rng.random() < 0.2:
            # a companion that cannot be derived for an enum: it gets an error of its own, the other impls stay
            extra.insert(rng.randrange(len(extra) + 1), rng.choice(["Neg", "Not", "Add", "SubAssign", "Deref"]))
            rep.count("supersets_with_a_trait_not_derivable_for_enums")
        if extra and not activates_helper(item, traits, extra) and "dump" not in shared:
            pos = rng.randrange(len(elems) + 1)
            el2 = elems[:pos] + extra + elems[pos:]
            sup = add(req_attr(0, ", ".join(el2 + shared), text)) if rng.random() < 0.5 else \
                add(req_derive(0, [", ".join(el2 + shared)], text))
            rel.append(("superset", a if reqs[sup]["entry"] == "attr" else d, sup,
                        {"traits": traits, "traits2": [trait_of(e) for e in el2], "entry": reqs[sup]["entry"]}))
        if len(elems) >= 2:
            perm = elems[:]
            rng.shuffle(perm)
            if perm != elems:
                p = add(req_attr(0, ", ".join(perm + shared), text))
                rel.append(("order", a, p, {"traits": traits, "traits2": [trait_of(e) for e in perm], "entry": "attr"}))
        bases.append((item, derived))
    obs = C.expand(reqs)
    for kind, ia, ib, info in rel:
        rep.evaluations += 1
        rep.count("rel_" + kind)
        if kind == "split-independent":
            ga = generated(obs[ia], reqs[ia]["entry"])
            gparts = [generated(obs[j], reqs[j]["entry"]) for j in ib]
            bad = None
            if ga is None or any(g is None for g in gparts):
                bad = ("expansion-failed", "")
            elif ga != gparts[0] + gparts[1]:
                gb = gparts[0] + gparts[1]
                k = next((i for i, (x, y) in enumerate(zip(ga, gb)) if x != y), min(len(ga), len(gb)))
                bad = ("part-expands-differently-next-to-another-attribute",
                       f"item #{k}:\n together: {ga[k] if k < len(ga) else None}\n alone:    {gb[k] if k < len(gb) else None}"[:900])
            rep.nontrivial.add((kind, tuple(sorted(set(info["traits"])))))
            if bad:
                rep.violation(f"C15|{kind}|{bad[0]}", f"{kind}: {bad[0]}\n whole: {json.dumps(reqs[ia])[:400]}\n{bad[1]}",
                              {"kind": kind, "a": reqs[ia], "b": [reqs[j] for j in ib], "info": info, "detail": bad[1]})
            continue
        oa, ob = obs[ia], obs[ib]
        ea, eb = reqs[ia]["entry"], reqs[ib]["entry"]
        bad = None
        if kind in ("entry", "split-derive", "split-attr"):
            ga, gb = generated(oa, ea), generated(ob, eb)
            if ga is None or gb is None:
                bad = ("expansion-failed", "")
            elif ga != gb:
                k = next((i for i, (x, y) in enumerate(zip(ga, gb)) if x != y), min(len(ga), len(gb)))
                bad = ("generated-items-differ", f"item #{k}:\n A: {ga[k] if k < len(ga) else None}\n B: {gb[k] if k < len(gb) else None}"[:900])
            rep.nontrivial.add((kind, tuple(sorted(set(info["traits"])))))
        else:
            sa, sb = slots_of(oa, ea, info["traits"]), slots_of(ob, eb, info["traits2"])
            if sa is None or sb is None:
                bad = ("unaligned-output", "")
            elif sa == "global" or sb == "global":
                if sa != sb:
                    bad = ("global-error-only-on-one-side", "")
            else:
                for t in info["traits"]:
                    if info["traits"].count(t) > 1 or info["traits2"].count(t) > 1:
                        continue
                    if sa[t][:2] != sb[t][:2]:
                        bad = (f"impl-of-{t}-depends-on-companions" if kind == "superset" else f"impl-of-{t}-depends-on-order",
                               f" A: {sa[t][1]}\n B: {sb[t][1]}"[:900])
                        break
                # listed order: every impl slot must carry its own trait
                for side, tr in ((sb, info["traits2"]),):
                    for t in tr:
                        if tr.count(t) == 1 and side[t][0] == "impl" and any(x != t for x in side[t][2] if x):
                            bad = ("impls-not-in-listed-order", f"{t}: {side[t][2]}")
            rep.nontrivial.add((kind, tuple(sorted(set(info["traits2"]) - set(info["traits"])))))
        if bad:
            rep.violation(f"C15|{kind}|{bad[0]}", f"{kind}: {bad[0]}\n A: {json.dumps(reqs[ia])[:400]}\n B: {json.dumps(reqs[ib])[:400]}\n{bad[1]}",
                          {"kind": kind, "a": reqs[ia], "b": reqs[ib], "info": info, "detail": bad[1]})
    # ---- E-run: split lists whose second attribute spells the macro's path differently ----
    scases = [C.Case(f"s{k}", code, {"kind": kind}) for k, (kind, code) in enumerate(compiled_split_programs())]
    _, snotes = C.run_cases(scases, "c15s", header="#![allow(warnings)]", batch_size=1)
    for nmsg in snotes:
        rep.inconcl(nmsg)
    for c in scases:
        r = judge_split(c)
        if r is None:
            rep.inconcl(f"compiled split-list program gave no observation ({c.status}): {[d['message'] for d in c.diags if d['level'] == 'error'][:2]}")
            continue
        rep.evaluations += 3
        rep.count("compiled_split_spellings", 3)
        for m, what in r:
            rep.violation(f"C15|split-list-macro-path|{m}", f"{what} ({c.meta['kind']}): the lists are expanded by separate invocations, the first strips the helper attributes the second needs\n{c.code[:600]}",
                          {"kind": "compiled-split", "code": c.code, "spelling": m, "info": {}})
    # ---- E-run: the two entry points when the arguments of the list contain macro_rules! fragments (the attribute entry gets
    # them in `attr`, the derive entry inside the item)
    FRA = ("macro_rules! mk { ($t:ty, $n:expr) => { @HEAD pub struct S<T>(pub T, pub [u8; 2 * $n]); } }\n"
           "mk!(dyn ::core::fmt::Debug + Sync, 1 + 1);\n"
           "pub fn run() { let s = S(5u8, [0u8; 4]); let c = ::core::clone::Clone::clone(&s); ::dxrt::ev!(\"entry\", \"o\" => format!(\"{} {}\", c.0, c.1.len())); }")
    ARGS = "Clone, bound(&'static $t: ::core::marker::Send, [u8; 2 * $n]: ::core::marker::Copy, ..)"
    ea = C.Case("ea", FRA.replace("@HEAD", f"#[::derive_ex::derive_ex({ARGS})]"), {})
    ed = C.Case("ed", FRA.replace("@HEAD", f"#[derive(::derive_ex::Ex)] #[derive_ex({ARGS})]"), {})
    _, enotes = C.run_cases([ea, ed], "c15e", header="#![allow(warnings)]", batch_size=1)
    for nmsg in enotes:
        rep.inconcl(nmsg)
    ev_of = lambda c: next((e["o"] for e in c.events if e.get("k") == "entry"), None)
    if ed.status != "ok" or ev_of(ed) is None:
        rep.inconcl(f"fragment-argument program does not compile through the derive entry either: {[d['message'] for d in ed.diags if d['level'] == 'error'][:2]}")
    elif ea.status != "inconclusive":
        rep.evaluations += 1
        rep.count("compiled_entry_pairs_with_fragment_arguments")
        if ea.status != "ok" or ev_of(ea) != ev_of(ed):
            d = next((x for x in ea.diags if x["level"] == "error"), {"message": f"observed {ev_of(ea)} vs {ev_of(ed)}"})
            rep.violation("C15|entry|fragment-in-list-arguments", f"the attribute entry point and #[derive(Ex)] disagree when the list's arguments contain macro_rules! fragments: {(d['message'] or '')[:160]}\n{ea.code[:500]}",
                          {"kind": "compiled-entry", "code": ea.code, "code_d": ed.code, "info": {}})
    kind, ia, ib, info = next(r for r in rel if r[0] == "split-derive")
    rep.sample({"relation": kind, "a": reqs[ia], "b": reqs[ib]})
    kind, ia, ib, info = next(r for r in rel if r[0] == "superset")
    rep.sample({"relation": kind, "a": reqs[ia], "b": reqs[ib]})
    # canary: an item whose helper attribute belongs only to the added trait must make the relation fail
    ca = {"id": 0, "entry": "attr", "attr": "Clone", "item": "struct X(u8);"}
    cb = {"id": 1, "entry": "attr", "attr": "Clone(bound(u8: Copy))", "item": "struct X(u8);"}
    oa, ob = C.expand([ca, cb])
    rep.canary = generated(oa, "attr") != generated(ob, "attr")
    rep.rule = ("generated struct/enum items with helper attributes and bound arguments; relations checked by token equality of "
                "the generated impls: attribute macro vs #[derive(Ex)]; one list vs 2-/3-way splits (shared bound/dump "
                "replicated; foreign attributes - doc, allow, cfg_attr - between and before the split lists); per-trait impls inside a list vs inside a superset list (skipped when an item attribute belongs "
                "only to an added trait) and vs a permuted list; impls in listed order. distinct_nontrivial = distinct "
                "(relation, trait-set) classes.")


def replay(rep, path):
    j = json.load(open(path))["replay"]
    kind, info = j["kind"], j["info"]
    if kind == "compiled-entry":
        a, d = C.compile_single(j["code"], header="#![allow(warnings)]"), C.compile_single(j["code_d"], header="#![allow(warnings)]")
        ev_of = lambda c: next((e["o"] for e in c.events if e.get("k") == "entry"), None)
        if d.status == "ok" and (a.status != "ok" or ev_of(a) != ev_of(d)):
            print(f"VIOLATION property=C15 replay={path}")
            return 1
        print("replay: no violation")
        return 0
    if kind == "compiled-split":
        c = C.compile_single(j["code"], header="#![allow(warnings)]")
        r = judge_split(c)
        if r and any(m == j["spelling"] for m, _ in r):
            print(f"VIOLATION property=C15 replay={path}")
            return 1
        print("replay: no violation")
        return 0
    if kind == "split-independent":
        o = C.expand([j["a"]] + j["b"])
        g = [generated(x, r["entry"]) for x, r in zip(o, [j["a"]] + j["b"])]
        if None in g or g[0] != g[1] + g[2]:
            print(f"VIOLATION property=C15 replay={path}")
            return 1
        print("replay: no violation")
        return 0
    oa, ob = C.expand([j["a"], j["b"]])
    if kind in ("entry", "split-derive", "split-attr"):
        bad = generated(oa, j["a"]["entry"]) != generated(ob, j["b"]["entry"])
    else:
        sa, sb = slots_of(oa, j["a"]["entry"], info["traits"]), slots_of(ob, j["b"]["entry"], info["traits2"])
        bad = isinstance(sa, dict) and isinstance(sb, dict) and any(sa[t][:2] != sb[t][:2] for t in info["traits"])
    if bad:
        print(f"VIOLATION property=C15 replay={path}")
        return 1
    print("replay: no violation")
    return 0
