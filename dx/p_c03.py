"""C03 — default bounds are exactly the used field types that mention a parameter (E-run: trait-solver bits, twin)."""
import itertools
import json

from . import common as C

FLOOR = {"quick": 8000, "thorough": 50000}
NRANDOM = {"quick": 2000, "thorough": 12000}
HEADER = "#![allow(warnings)]"
D = "::dxrt::"

# field type -> (text, params mentioned (type/const only), needs lifetime, explicit default value usable without bounds)
FTYPES = {
    "T": ("T", "T", False, None),
    "U": ("U", "U", False, None),
    "FwdT": (D + "Fwd<T>", "T", False, None),
    "AlwaysT": (D + "Always<T>", "T", False, D + "Always(::core::marker::PhantomData)"),
    "NeverT": (D + "Never<T>", "T", False, D + "Never(::core::marker::PhantomData)"),
    "OptT": ("::core::option::Option<T>", "T", False, "::core::option::Option::None"),
    "VecT": ("::std::vec::Vec<T>", "T", False, "::std::vec::Vec::new()"),
    "BoxT": ("::std::boxed::Box<T>", "T", False, None),
    "RcT": ("::std::rc::Rc<T>", "T", False, None),
    "PhT": ("::core::marker::PhantomData<T>", "T", False, "::core::marker::PhantomData"),
    "RefT": ("&'l T", "T", True, None),
    "TU": ("(T, U)", "TU", False, None),
    "ArrTN": ("[T; N]", "TN", False, None),
    "ArrN": ("[u8; N]", "N", False, "[0u8; N]"),
    "FnTU": ("fn(T) -> U", "TU", False, None),
    "PtrT": ("*const T", "T", False, "::core::ptr::null()"),
    "Assoc": ("T::Assoc", "T", False, None),
    "QAssoc": ("<T as " + D + "Tr>::Assoc", "T", False, None),
    # a parameter next to a path that is not a parameter (in either order, written without a leading `::`)
    "TupT8": ("(T, u8)", "T", False, None),
    "Tup8T": ("(u8, T)", "T", False, None),
    "ResT8": ("::core::result::Result<T, u8>", "T", False, None),
    "OptTup": ("::core::option::Option<(u8, T, u8)>", "T", False, "::core::option::Option::None"),
    "FnT8": ("fn(T) -> u8", "T", False, None),
    "ArrTup": ("[(T, u8); 2]", "T", False, None),
    # a fn pointer written with its own binder
    "FnHr": ("for<'x> fn(&'x T) -> &'x T", "T", False, None),
    # a fn pointer without return type behind a reference / raw pointer (`&'l fn(T): Trait` does not parse as a predicate)
    # one type, two spellings (listed known finding: the two predicates are ambiguous for rustc); core cases only
    "FnRefA": ("fn(&T)", "T", False, None),
    "FnRefB": ("fn(t: &T) -> ()", "T", False, None),
    "RefFn": ("&'l fn(T)", "T", True, None),
    "PtrFn": ("*const fn(T)", "T", False, None),
    "FnPtrFn": ("fn() -> *mut fn(T)", "T", False, None),
    "QAssocRel": ("<T as dxrt::Tr>::Assoc", "T", False, None),
    # the same types written with redundant parentheses / a trailing comma
    "ParT": ("(T)", "T", False, None),
    "ParOpt": ("(::core::option::Option<(T)>)", "T", False, "::core::option::Option::None"),
    "TupTc": ("(T, u8,)", "T", False, None),
    "RefPar": ("&'l (T)", "T", True, None),
    "u8": ("u8", "", False, "5"),
    "Yes": (D + "Yes", "", False, D + "Yes"),
    "RefU8": ("&'l u8", "", True, None),
}
OPS_FIELD_OK = {"T", "U", "FwdT", "AlwaysT", "NeverT", "Yes", "OptT", "VecT", "PhT"}   # any field type is *legal*; these are the interesting ones
PLAIN = ["Copy", "Clone", "Debug", "Default", "PartialEq", "Eq", "PartialOrd", "Ord", "Hash"]
SUPER = {"Copy": ["Clone"], "Eq": ["PartialEq"], "PartialOrd": ["PartialEq"], "Ord": ["PartialEq", "Eq", "PartialOrd"]}
PATH = {"Copy": "::core::marker::Copy", "Clone": "::core::clone::Clone", "Debug": "::core::fmt::Debug",
        "Default": "::core::default::Default", "PartialEq": "::core::cmp::PartialEq", "Eq": "::core::cmp::Eq",
        "PartialOrd": "::core::cmp::PartialOrd", "Ord": "::core::cmp::Ord", "Hash": "::core::hash::Hash"}
CMP_ATTR = {"PartialEq": "partial_eq", "Eq": "eq", "PartialOrd": "partial_ord", "Ord": "ord", "Hash": "hash"}


def concrete_ok(ft, trait):
    """A field whose type mentions no parameter gets no bound, so it must implement the trait by itself."""
    if ft == "u8":
        return trait != "Neg"
    if ft == "RefU8":
        return trait in ("Copy", "Clone", "Debug", "PartialEq", "Eq", "PartialOrd", "Ord", "Hash")
    if ft in ("FnHr", "RefFn", "PtrFn", "FnPtrFn", "FnRefA", "FnRefB"):
        # with the operators the harness' own hand-written twin would need a second binder; the plain traits are what matters
        return trait in PLAIN
    return True


def gen_spec(rng, trait=None):
    trait = trait or rng.choice(PLAIN + PLAIN + C.BINOPS + C.ASSIGNOPS + C.UNOPS)
    is_op = trait not in PLAIN
    kind = "struct" if is_op else rng.choice(["struct", "struct", "enum"])
    pool = [f for f in FTYPES if concrete_ok(f, trait) and f not in ("FnRefA", "FnRefB")]
    nv = 1 if kind == "struct" else rng.randint(1, 3)
    variants = []
    for vi in range(nv):
        style = rng.choice(["named", "tuple"] if kind == "struct" else ["named", "tuple", "unit"])
        nf = 0 if style == "unit" else rng.randint(1, 4)
        fs = []
        for _ in range(nf):
            ft = rng.choice(pool)
            f = {"ft": ft, "mode": "plain"}
            r = rng.random()
            if trait == "Debug" and r < 0.3:
                f["mode"] = "ignore"
            elif trait in CMP_ATTR and r < 0.2:
                f["mode"] = "ignore"
            elif trait in CMP_ATTR and r < 0.35:
                f["mode"] = "key"
            elif trait in CMP_ATTR and r < 0.5:
                f["mode"] = "by"
            elif trait == "Default" and r < 0.35 and FTYPES[ft][3] is not None:
                f["mode"] = "value"
            if trait in CMP_ATTR and f["mode"] in ("ignore", "key", "by"):
                # any helper attribute that affects the trait may carry the customisation (Hash takes keys, not `by`, from eq/ord)
                from . import cmpmodel as M
                cands = list(M.AFFECTS[trait])
                if trait == "Hash" and f["mode"] == "by":
                    cands = ["hash"]
                f["helper"] = rng.choice(cands)
            fs.append(f)
        variants.append({"style": style, "fields": fs})
    if trait == "Debug":
        for v in variants:
            if v["fields"] and rng.random() < 0.2:
                for f in v["fields"]:
                    f["mode"] = "plain"
                rng.choice(v["fields"])["mode"] = "transparent"
    spec = {"trait": trait, "kind": kind, "variants": variants, "entry": rng.choice(["attr", "derive"]),
            "where_tr": rng.random() < 0.3, "dv": rng.randrange(nv) if kind == "enum" else 0, "where_self": rng.random() < 0.25}
    return spec


def params_of(spec):
    used = set()
    lt = False
    assoc = False
    for v in spec["variants"]:
        for f in v["fields"]:
            t = FTYPES[f["ft"]]
            used |= set(t[1])
            lt |= t[2]
            assoc |= f["ft"] in ("Assoc", "QAssoc", "QAssocRel")
    return sorted(used), lt, assoc


def where_self_ok(spec, used, lt, assoc):
    return bool(spec.get("where_self")) and list(used) == ["T"] and not lt and not assoc


def trg_impls(spec, name):
    """`T: TrG<Self>` is declared: implement TrG<Name<A>> for every type T is instantiated with (and nothing else)."""
    g, ga, wh, used, lt, assoc = generics(spec)
    if "TrG" not in wh:
        return ""
    tys = sorted({m["T"] for _, m in instantiations(spec)})
    return "\n".join(f"impl {D}TrG<{name}<{t}>> for {t} {{}}" for t in tys)


def generics(spec):
    used, lt, assoc = params_of(spec)
    decl, args = [], []
    if lt:
        decl.append("'l")
    for p in used:
        if p == "N":
            continue
        b = []
        if p == "T" and assoc and not spec["where_tr"]:
            b.append(D + "Tr")
        if lt and p == "T":
            b.append("'l")
        decl.append(p + (": " + " + ".join(b) if b else ""))
    if "N" in used:
        decl.append("const N: usize")
    wh = ""
    if assoc and spec["where_tr"]:
        wh = f" where T: {D}Tr"
    if where_self_ok(spec, used, lt, assoc):
        # `Self` in the generic arguments of a declared bound: TrG<X> is implemented per type by the case itself
        wh = f" where T: {D}TrG<Self>"
    g = "<" + ", ".join(decl) + ">" if decl else ""
    names = (["'l"] if lt else []) + [p for p in used if p != "N"] + (["N"] if "N" in used else [])
    ga = "<" + ", ".join(names) + ">" if names else ""
    return g, ga, wh, used, lt, assoc


BY_FN = {"partial_eq": "g_eq", "eq": "g_eq", "partial_ord": "g_pcmp", "ord": "g_cmp", "hash": "g_hash"}


def field_attr(spec, f):
    t = spec["trait"]
    m = f["mode"]
    h = f.get("helper") or CMP_ATTR.get(t)
    if m == "ignore":
        return "#[debug(ignore)] " if t == "Debug" else f"#[{h}(ignore)] "
    if m == "transparent":
        return "#[debug(transparent)] "
    if m == "key":
        return f"#[{h}(key = {D}g_key(&$))] "
    if m == "by":
        return f"#[{h}(by = {D}{BY_FN[h]})] "
    if m == "value":
        return f"#[default({FTYPES[f['ft']][3]})] "
    return ""


def type_text(spec, name, with_dx):
    g, ga, wh, used, lt, assoc = generics(spec)
    t = spec["trait"]
    head = ""
    if with_dx:
        head = f"#[::derive_ex::derive_ex({t})]\n" if spec["entry"] == "attr" else f"#[derive(::derive_ex::Ex)]\n#[derive_ex({t})]\n"
    bodies = []
    for vi, v in enumerate(spec["variants"]):
        fs = []
        for i, f in enumerate(v["fields"]):
            a = field_attr(spec, f) if with_dx else ""
            fs.append(f"{a}f{i}: {FTYPES[f['ft']][0]}" if v["style"] == "named" else f"{a}{FTYPES[f['ft']][0]}")
        bodies.append("{ " + ", ".join(fs) + " }" if v["style"] == "named" else ("(" + ", ".join(fs) + ")" if v["style"] == "tuple" else ""))
    if spec["kind"] == "struct":
        st = spec["variants"][0]["style"]
        return head + (f"pub struct {name}{g}{wh} {bodies[0]}" if st == "named" else f"pub struct {name}{g}{bodies[0]}{wh};")
    vs = []
    for vi, b in enumerate(bodies):
        m = "#[default] " if (with_dx and t == "Default" and vi == spec["dv"] and len(bodies) > 1) else ""
        vs.append(f"{m}V{vi}{b}")
    if spec.get("tl"):
        # a value on the type decides: no variant is built, the marked variant's fields are not used either
        vs.append("Zz")
        if with_dx:
            head += "#[default(Self::Zz)]\n"
    return head + f"pub enum {name}{g}{wh} {{ " + ", ".join(vs) + " }"


def used_fields(spec):
    """The documented rule: which fields does the derived code actually use?"""
    t = spec["trait"]
    out = []
    if spec.get("tl"):
        return out
    for vi, v in enumerate(spec["variants"]):
        if t == "Default" and spec["kind"] == "enum" and vi != spec["dv"]:
            continue
        tr = [f for f in v["fields"] if f["mode"] == "transparent"]
        for f in v["fields"]:
            if t == "Debug":
                if tr:
                    if f["mode"] != "transparent":
                        continue
                elif f["mode"] == "ignore":
                    continue
            elif t in CMP_ATTR:
                if f["mode"] in ("ignore", "key", "by"):
                    continue
            elif t == "Default":
                if f["mode"] == "value":
                    continue
            out.append(f)
    return out


def bounded_types(spec):
    seen, out = set(), []
    for f in used_fields(spec):
        ft = FTYPES[{"FnRefB": "FnRefA"}.get(f["ft"], f["ft"])]     # one predicate per type, however the field spells it
        if ft[1] and ft[0] not in seen:     # mentions a type or const parameter
            seen.add(ft[0])
            out.append(ft[0])
    return out


def impl_header(spec, name, trait_path, self_ty, extra_where):
    g, ga, wh, used, lt, assoc = generics(spec)
    # `Self` of the declared where-clause is the type itself also in the impls for `&Type`
    preds = ([wh[len(" where "):].replace("Self", f"{name}{ga}")] if wh else []) + extra_where
    w = (" where " + ", ".join(preds)) if preds else ""
    return f"impl{g} {trait_path} for {self_ty}{w}"


def super_impls(spec, name):
    """Hand-written, unconditional supertrait impls (so that only the derived trait's own bounds matter)."""
    g, ga, wh, *_ = generics(spec)
    out = []
    for s in SUPER.get(spec["trait"], []):
        body = {"Clone": "fn clone(&self) -> Self { loop {} }", "PartialEq": "fn eq(&self, _: &Self) -> bool { loop {} }", "Eq": "",
                "PartialOrd": "fn partial_cmp(&self, _: &Self) -> ::core::option::Option<::core::cmp::Ordering> { loop {} }"}[s]
        out.append(f"impl{g} {PATH[s]} for {name}{ga}{wh} {{ {body} }}")
    return "\n".join(out)


def forms_of(trait):
    if trait in C.BINOPS:
        return [(False, False), (False, True), (True, False), (True, True)]
    if trait in C.ASSIGNOPS:
        return [(None, False), (None, True)]
    if trait in C.UNOPS:
        return [(False, None), (True, None)]
    return [(None, None)]


def twin_impls(spec, name):
    t = spec["trait"]
    g, ga, wh, *_ = generics(spec)
    tys = bounded_types(spec)
    me = f"{name}{ga}"
    out = []
    if t in PLAIN:
        body = {"Copy": "", "Clone": "fn clone(&self) -> Self { loop {} }",
                "Debug": "fn fmt(&self, _: &mut ::core::fmt::Formatter) -> ::core::fmt::Result { loop {} }",
                "Default": "fn default() -> Self { loop {} }", "PartialEq": "fn eq(&self, _: &Self) -> bool { loop {} }", "Eq": "",
                "PartialOrd": "fn partial_cmp(&self, _: &Self) -> ::core::option::Option<::core::cmp::Ordering> { loop {} }",
                "Ord": "fn cmp(&self, _: &Self) -> ::core::cmp::Ordering { loop {} }",
                "Hash": "fn hash<HH: ::core::hash::Hasher>(&self, _: &mut HH) { loop {} }"}[t]
        # (a bounded type that ends in `fn(..)` has to be parenthesized when written by hand)
        out.append(impl_header(spec, name, PATH[t], me, [(f"({x})" if "fn(" in x else x) + f": {PATH[t]}" for x in tys]) + f" {{ {body} }}")
        return "\n".join(out)
    tp = f"::core::ops::{t}"
    fn = (C.OPFN[t[:-6]] + "_assign") if t in C.ASSIGNOPS else C.OPFN[t]
    for (l, r) in forms_of(t):
        if t in C.BINOPS:
            w = []
            for x in tys:
                lt_ = f"&'x {x}" if l else x
                rt_ = f"&'x {x}" if r else x
                w.append((f"for<'x> " if (l or r) else "") + f"{lt_}: {tp}<{rt_}, Output = {x}>")
            self_ty = f"&{me}" if l else me
            rhs = f"&{me}" if r else me
            out.append(impl_header(spec, name, f"{tp}<{rhs}>", self_ty, w) + f" {{ type Output = {me}; fn {fn}(self, _: {rhs}) -> {me} {{ loop {{}} }} }}")
        elif t in C.ASSIGNOPS:
            w = [(f"for<'x> {x}: {tp}<&'x {x}>" if r else f"{x}: {tp}<{x}>") for x in tys]
            rhs = f"&{me}" if r else me
            out.append(impl_header(spec, name, f"{tp}<{rhs}>", me, w) + f" {{ fn {fn}(&mut self, _: {rhs}) {{ loop {{}} }} }}")
        else:
            w = [(f"for<'x> &'x {x}: {tp}<Output = {x}>" if l else f"{x}: {tp}<Output = {x}>") for x in tys]
            self_ty = f"&{me}" if l else me
            out.append(impl_header(spec, name, tp, self_ty, w) + f" {{ type Output = {me}; fn {fn}(self) -> {me} {{ loop {{}} }} }}")
    return "\n".join(out)


def instantiations(spec):
    g, ga, wh, used, lt, assoc = generics(spec)
    choices = []
    for p in used:
        if p == "N":
            choices.append(["0", "33"])
        elif p == "T" and assoc:
            choices.append([D + "Yes", D + "No", D + "YesToNo", D + "NoToYes"])
        elif spec["trait"] not in PLAIN and p == "T":
            # operator traits: also types that implement exactly one owned/reference form
            choices.append([D + "Yes", D + "No"] + [f"{D}OnlyForm<{k}>" for k in range(5)])
        else:
            choices.append([D + "Yes", D + "No"])
    tparams = [p for p in used if p != "N"]
    out = []
    for combo in itertools.product(*choices):
        m = dict(zip(used, combo))
        args = (["'static"] if lt else []) + [m[p] for p in tparams] + ([m["N"]] if "N" in used else [])
        out.append(("<" + ", ".join(args) + ">" if args else "", m))
    return out


def probe_exprs(spec, name, inst):
    t = spec["trait"]
    me = f"{name}{inst}"
    out = []
    for (l, r) in forms_of(t):
        if t in PLAIN:
            out.append(f"::dxrt::probe_impl!({me}: {PATH[t]})")
        elif t in C.BINOPS:
            st = f"&'static {me}" if l else me
            rt = f"&'static {me}" if r else me
            out.append(f"::dxrt::probe_impl!({st}: ::core::ops::{t}<{rt}>)")
        elif t in C.ASSIGNOPS:
            rt = f"&'static {me}" if r else me
            out.append(f"::dxrt::probe_impl!({me}: ::core::ops::{t}<{rt}>)")
        else:
            st = f"&'static {me}" if l else me
            out.append(f"::dxrt::probe_impl!({st}: ::core::ops::{t})")
    return out


def render(spec, with_dx=True):
    out = []
    if with_dx:
        out += [type_text(spec, "X", True), super_impls(spec, "X"), trg_impls(spec, "X")]
    out += [type_text(spec, "W", False), super_impls(spec, "W"), trg_impls(spec, "W"), twin_impls(spec, "W"), "pub fn run() {"]
    for ii, (inst, m) in enumerate(instantiations(spec)):
        for which in (["X", "W"] if with_dx else ["W"]):
            bits = " ".join(f"s.push(::dxrt::bool_c({e}));" for e in probe_exprs(spec, which, inst))
            out.append(f'{{ let mut s = ::std::string::String::new(); {bits} ::dxrt::ev!("bits", "w" => "{which}", "i" => {ii}, "b" => s); }}')
    out.append("}")
    return "\n".join(out)


def describe(spec):
    return (f"{spec['trait']} {spec['kind']} " + "|".join(
        v["style"] + "[" + ",".join(f["ft"] + (":" + f["mode"] + ("@" + f["helper"] if f.get("helper") else "") if f["mode"] != "plain" else "") for f in v["fields"]) + "]"
        for v in spec["variants"]) + (f" dv={spec['dv']}" if spec["trait"] == "Default" and spec["kind"] == "enum" else ""))


def check_case(spec, events):
    x = {e["i"]: e["b"] for e in events if e.get("k") == "bits" and e["w"] == "X"}
    w = {e["i"]: e["b"] for e in events if e.get("k") == "bits" and e["w"] == "W"}
    bad = []
    insts = instantiations(spec)
    if set(x) != set(range(len(insts))) or set(w) != set(x):
        return [("missing-observations", len(insts), len(x))], 0, False
    nontriv = False
    for i, (inst, m) in enumerate(insts):
        if x[i] != w[i]:
            bad.append(("bits", f"{inst}: twin {w[i]}", f"derive_ex {x[i]}"))
        # what "bound every parameter" (the std derive's policy) would give
        naive = all(v in (D + "Yes", D + "YesToNo", "0", "33") or "OnlyForm" in v for v in m.values())
        if any((c == "1") != naive for c in w[i]):
            nontriv = True
    return bad, len(insts) * len(next(iter(x.values()), "")), nontriv


def core(rng):
    specs = []
    k = 0
    # every trait x a few characteristic field types, struct form
    for t in PLAIN + C.BINOPS + C.ASSIGNOPS + C.UNOPS:
        for fts in (["PhT", "T"], ["FwdT", "AlwaysT"], ["NeverT"], ["OptT", "u8"], ["ArrN", "Yes"], ["Assoc", "U"], ["TupT8", "Tup8T"],
                    ["ResT8", "FnT8"], ["FnHr", "T"], ["FnHr"], ["FnRefA", "FnRefB"], ["FnRefA", "FnRefA", "u8"], ["RefFn"], ["PtrFn", "u8"], ["FnPtrFn", "T"], ["QAssocRel", "ArrTup"], ["OptTup"], ["ParT", "TupTc"], ["ParOpt", "RefPar"]):
            k += 1
            fts = [f for f in fts if concrete_ok(f, t)]
            specs.append({"trait": t, "kind": "struct", "entry": "attr" if k % 2 else "derive", "where_tr": k % 4 == 0, "dv": 0,
                          "variants": [{"style": "tuple" if k % 3 else "named", "fields": [{"ft": f, "mode": "plain"} for f in fts]}]})
    # a declared where-clause whose bound mentions `Self` in its generic arguments
    for t in PLAIN + C.BINOPS[:3] + C.ASSIGNOPS[:2] + C.UNOPS:
        for fts in (["T"], ["OptT", "u8"]):
            k += 1
            fts = [f for f in fts if concrete_ok(f, t)]
            specs.append({"trait": t, "kind": "struct" if (k % 3 or t not in PLAIN) else "enum", "entry": "attr" if k % 2 else "derive", "where_tr": False, "dv": 0, "where_self": True,
                          "variants": [{"style": "tuple" if k % 2 else "named", "fields": [{"ft": f, "mode": "plain"} for f in fts]}]})
    # unused fields contribute no bound
    for t, mode in (("Debug", "ignore"), ("Debug", "transparent"), ("PartialEq", "ignore"), ("PartialEq", "key"), ("PartialEq", "by"),
                    ("Ord", "key"), ("Ord", "by"), ("Hash", "ignore"), ("Hash", "key"), ("Hash", "by"), ("PartialOrd", "by"), ("Eq", "by"),
                    ("Default", "value")):
        for ft in ("OptT", "NeverT", "PhT"):
            k += 1
            other = {"ft": "U", "mode": "plain"}
            me = {"ft": ft, "mode": mode}
            specs.append({"trait": t, "kind": "struct", "entry": "attr" if k % 2 else "derive", "where_tr": False, "dv": 0,
                          "variants": [{"style": "named", "fields": [other, me] if mode != "transparent" else [me, other]}]})
    from . import cmpmodel as M
    for t in CMP_ATTR:
        for h in M.AFFECTS[t]:
            for mode in ("ignore", "key", "by"):
                if t == "Hash" and mode == "by" and h != "hash":
                    continue
                k += 1
                specs.append({"trait": t, "kind": "struct" if k % 2 else "enum", "entry": "attr" if k % 4 < 2 else "derive", "where_tr": False, "dv": 0,
                              "variants": [{"style": "named", "fields": [{"ft": "U", "mode": "plain"}, {"ft": "NeverT", "mode": mode, "helper": h},
                                                                          {"ft": "VecT", "mode": mode, "helper": h}]}]})
    # Default on enums: only the default variant counts
    for dv in (0, 1, 2):
        specs.append({"trait": "Default", "kind": "enum", "entry": "attr", "where_tr": False, "dv": dv, "variants": [
            {"style": "tuple", "fields": [{"ft": "T", "mode": "plain"}]}, {"style": "named", "fields": [{"ft": "U", "mode": "plain"}]},
            {"style": "unit", "fields": []}]})
    # .. and none at all when the type carries the value (with and without a marked variant)
    for dv, entry in ((0, "attr"), (1, "derive"), (2, "attr")):
        specs.append({"trait": "Default", "kind": "enum", "entry": entry, "where_tr": False, "dv": dv, "tl": True, "variants": [
            {"style": "tuple", "fields": [{"ft": "T", "mode": "plain"}, {"ft": "OptT", "mode": "plain"}]}, {"style": "named", "fields": [{"ft": "U", "mode": "plain"}]},
            {"style": "unit", "fields": []}]})
    return specs


def run(rep, tier, rng):
    specs = core(rng)
    rep.count("core_types", len(specs))
    n0 = len(specs)
    while len(specs) < n0 + NRANDOM[tier]:
        specs.append(gen_spec(rng))
    cases = []
    for i, s in enumerate(specs):
        cases.append(C.Case(f"c{i}", render(s), {"spec": s}))
        cases.append(C.Case(f"k{i}", render(s, with_dx=False), {}))
    _, notes = C.run_cases(cases, "c03", header=HEADER, batch_size=60)
    for n in notes:
        rep.inconcl(n)
    by = {c.name: c for c in cases}
    sigs = {}
    for i, s in enumerate(specs):
        c, k = by[f"c{i}"], by[f"k{i}"]
        if "inconclusive" in (c.status, k.status):
            continue
        if k.status != "ok":
            rep.count("control_rejected")
            if rep.events.get("control_rejected", 0) <= 3:
                rep.inconcl(f"twin/control does not compile: {[d['message'] for d in k.diags][:1]} :: {describe(s)}")
            continue
        if c.status == "compile_fail":
            d = next((d for d in c.diags if d["level"] == "error" and d["in_derive_ex"]), None) or next(d for d in c.diags if d["level"] == "error")
            rep.evaluations += 1
            modes = sorted({f["mode"] for v in s["variants"] for f in v["fields"]})
            sig = f"C03|generated-impl-does-not-typecheck|{d['code']}|{s['trait'] if s['trait'] in PLAIN else 'op'}|{'+'.join(modes)}"
            if d["code"] in ("E0283", "E0284", "E0204") and {"FnRefA", "FnRefB"} <= {f["ft"] for v in s["variants"] for f in v["fields"]}:
                sig = "C03|generated-impl-does-not-typecheck|E0283|one-type-two-spellings"     # listed finding
            sigs.setdefault(sig, []).append(
                (c, f"{d['code']}: {(d['message'] or '')[:160]}: {describe(s)}"))
            continue
        rep.count("types_run")
        bad, n, nontriv = check_case(s, c.events)
        rep.evaluations += n
        rep.count("probe_bits_compared", n)
        if nontriv:
            rep.nontrivial.add((s["trait"], tuple((v["style"], tuple((f["ft"], f["mode"]) for f in v["fields"])) for v in s["variants"])))
        for b in bad:
            modes = sorted({f["mode"] for v in s["variants"] for f in v["fields"]})
            sigs.setdefault(f"C03|{b[0]}|{s['trait'] if s['trait'] in PLAIN else 'op'}|{'+'.join(modes)}", []).append(
                (c, f"{b[0]}: {b[1]} vs {b[2]}: {describe(s)}"))
    for sig, lst in list(sigs.items())[:25]:
        c, what = lst[0]
        again = C.compile_single(c.code, header=HEADER)
        if (again.status == "compile_fail" and "typecheck" in sig) or (again.status == "ok" and check_case(c.meta["spec"], again.events)[0]):
            rep.violation(sig, what + f" [{len(lst)} cases]", {"spec": c.meta["spec"], "code": c.code})
        else:
            rep.inconcl(f"did not reproduce in isolation: {sig}")
    for c in (cases[2], cases[2 * 200], cases[2 * (n0 + 1)]):
        rep.sample({"case": describe(c.meta["spec"]), "source": "\n".join(c.code.splitlines()[:8])[:900],
                    "bits": [e for e in c.events if e.get("k") == "bits"][:4]})
    # canary: a model that also bounds a debug-ignored / key-compared field must disagree with the real impl
    ok = next(c for c in cases if c.name.startswith("c") and c.status == "ok" and c.meta["spec"]["trait"] == "PartialEq"
              and any(f["mode"] == "key" and f["ft"] == "NeverT" for v in c.meta["spec"]["variants"] for f in v["fields"]))
    ev = json.loads(json.dumps(ok.events))
    for e in ev:
        if e.get("k") == "bits" and e["w"] == "W":
            e["b"] = "0" * len(e["b"])     # what a twin that bounds Never<T> would observe
    rep.canary = bool(check_case(ok.meta["spec"], ev)[0])
    rep.rule = ("non-recursive generic structs/enums with type/const/lifetime parameters, inline bounds or where-clauses, field types "
                "from the grammar {T, U, Fwd<T>, Always<T>, Never<T>, Option<T>, Vec<T>, Box<T>, Rc<T>, PhantomData<T>, &'a T, (T,U), "
                "[T;N], [u8;N], fn(T)->U, *const T, T::Assoc, <T as Tr>::Assoc, (T,u8), (u8,T), Result<T,u8>, Option<(u8,T,u8)>, fn(T)->u8, [(T,u8);2], concrete}; one derived trait per case out of Copy, "
                "Clone, Debug, Default, the five comparison traits and all 22 operator traits (every owned/reference form); fields "
                "made unused by debug(ignore/transparent), cmp ignore/key/by, explicit default values, non-default variants. Oracle: "
                "for every instantiation of the parameters by Yes/No (YesToNo/NoToYes with associated types, N in {0,33}) the "
                "trait-solver bit probe_impl!(X<..>: Trait) equals the bit of a twin type carrying a hand-written impl whose "
                "where-clause is the documented one; a generated impl that fails to type-check while the twin compiles is a "
                "violation. evaluations = probe bits compared; distinct_nontrivial = distinct shapes whose bit row differs from "
                "what bounding every parameter would give.")


def replay(rep, path):
    j = json.load(open(path))["replay"]
    c = C.compile_single(j["code"], header=HEADER)
    if c.status == "compile_fail" or (c.status == "ok" and check_case(j["spec"], c.events)[0]):
        print(f"VIOLATION property=C03 replay={path}")
        return 1
    print("replay: no violation")
    return 0
