"""C19 — dump shows exactly the code that would have been generated (E-exp)."""
import json

from . import common as C
from . import gens as G

FLOOR = {"quick": 4000, "thorough": 60000}
COUNT = {"quick": 6000, "thorough": 90000}


def add_dump(elem):
    """`T` -> `T(dump)`, `T(args)` -> `T(args, dump)`"""
    if elem.endswith(")"):
        inner = elem[elem.index("(") + 1:-1].strip()
        return elem[:elem.index("(")] + "(" + (inner + ", " if inner else "") + "dump)"
    return elem + "(dump)"


def trait_of(elem):
    return elem.split("(")[0].strip()


def gen_items(o, entry):
    items = o["items"]
    if entry == "attr":
        return items[0] if items else None, items[1:]
    return None, items


def compare(o0, o1, traits, dumped, entry):
    """o0: expansion without dump, o1: with dump on the traits whose index is in `dumped`.
    Returns None or (symptom, detail)."""
    for o in (o0, o1):
        if o.get("status") != "ok" or not o.get("parses"):
            return ("expansion-failed", str(o.get("status")) + str(o.get("parse_err")))
    it0, g0 = gen_items(o0, entry)
    it1, g1 = gen_items(o1, entry)
    if entry == "attr" and (it0 or {}).get("text") != (it1 or {}).get("text"):
        return ("item-changed-by-dump", f"{(it0 or {}).get('text')} vs {(it1 or {}).get('text')}")
    # one global error for the whole list (e.g. an argument that does not parse): must be unaffected by dump
    if len(g0) == 1 and g0[0]["kind"] == "compile_error" and len(traits) > 1:
        if [x["text"] for x in g1] != [x["text"] for x in g0]:
            return ("global-error-changed", g1[0]["text"][:200] if g1 else "nothing")
        return None
    s0, rest0 = C.impl_slots(g0, traits)
    s1, rest1 = C.impl_slots(g1, traits)
    if rest0 or rest1:
        return ("unaligned-output", f"{len(rest0)}/{len(rest1)} extra items")
    for k, (a, b) in enumerate(zip(s0, s1)):
        t0 = [x["text"] for x in a["items"]]
        if k not in dumped or a["status"] == "error":
            if [x["text"] for x in b["items"]] != t0:
                return ("undumped-trait-changed" if k not in dumped else "error-changed-by-dump",
                        f"trait {a['trait']}: {t0} vs {[x['text'] for x in b['items']]}"[:600])
            continue
        if b["status"] != "error" or len(b["items"]) != 1:
            return ("dumped-trait-not-a-single-error", f"trait {a['trait']}: {b['status']}")
        e = b["items"][0]
        d = e.get("dump")
        if not d:
            return ("error-without-dump-prefix", f"trait {a['trait']}: {str(e.get('msg'))[:100]}")
        if not d.get("lexes") or d.get("items") is None:
            return ("dump-text-does-not-lex", f"trait {a['trait']}")
        if d["items"] != t0:
            return ("dump-text-differs", f"trait {a['trait']}:\n generated: {t0}\n dumped:    {d['items']}"[:900])
    return None


def compare_impl(o0, o1):
    for o in (o0, o1):
        if o.get("status") != "ok" or not o.get("parses"):
            return ("expansion-failed", str(o.get("status")))
    it0, g0 = gen_items(o0, "attr")
    it1, g1 = gen_items(o1, "attr")
    if (it0 or {}).get("text") != (it1 or {}).get("text"):
        return ("item-changed-by-dump", "")
    if any(x["kind"] == "compile_error" for x in g0):
        if [x["text"] for x in g1] != [x["text"] for x in g0]:
            return ("error-changed-by-dump", "")
        return None
    if len(g1) != 1 or g1[0]["kind"] != "compile_error" or not g1[0].get("dump"):
        return ("dumped-impl-not-a-single-dump-error", str([x["kind"] for x in g1]))
    d = g1[0]["dump"]
    if not d.get("lexes") or d.get("items") != [x["text"] for x in g0]:
        return ("dump-text-differs", f"generated {[x['text'] for x in g0]}\ndumped {d.get('items')}"[:900])
    return None


def run(rep, tier, rng):
    n = COUNT[tier]
    reqs, plan = [], []
    while len(plan) < n:
        entry = "attr" if rng.random() < 0.6 else "derive"
        if rng.random() < 0.1:
            item, derived = G.gen_impl_item(rng)
            text = G.render(item)
            r0 = {"id": len(reqs), "entry": "attr", "attr": ", ".join(derived), "item": text}
            r1 = {"id": len(reqs) + 1, "entry": "attr", "attr": ", ".join(derived + ["dump"]), "item": text}
            reqs += [r0, r1]
            plan.append(("impl", r0["id"], r1["id"], derived, None, "attr"))
            continue
        item, derived = G.gen_type_item(rng)
        elems, shared = G.gen_trait_args(rng, derived)
        if item.get("kind") == "enum" and rng.random() < 0.15:
            # a trait that cannot be derived for an enum somewhere in the list: its own error, everything else as usual
            elems.insert(rng.randrange(len(elems) + 1), rng.choice(["Neg", "Not", "Add", "SubAssign", "Deref"]))
            rep.count("lists_with_a_trait_not_derivable_for_the_item")
        text = G.render(item)
        mode = rng.random()
        if len(elems) >= 2 and rng.random() < 0.2:
            # the list split over two derive_ex attributes, `dump` shared by only ONE of them
            cut = rng.randrange(1, len(elems))
            parts = [elems[:cut], elems[cut:]]
            which = rng.randrange(2)
            dumped = set(range(0, cut)) if which == 0 else set(range(cut, len(elems)))
            p0 = [", ".join(p + shared) for p in parts]
            p1 = [", ".join(p + shared + (["dump"] if k == which else [])) for k, p in enumerate(parts)]
            if entry == "attr":
                r0 = {"id": len(reqs), "entry": "attr", "attr": p0[0], "item": f"#[derive_ex({p0[1]})] {text}"}
                r1 = {"id": len(reqs) + 1, "entry": "attr", "attr": p1[0], "item": f"#[derive_ex({p1[1]})] {text}"}
            else:
                r0 = {"id": len(reqs), "entry": "derive", "attr": "", "item": f"#[derive_ex({p0[0]})] #[derive_ex({p0[1]})] {text}"}
                r1 = {"id": len(reqs) + 1, "entry": "derive", "attr": "", "item": f"#[derive_ex({p1[0]})] #[derive_ex({p1[1]})] {text}"}
            reqs += [r0, r1]
            plan.append(("type", r0["id"], r1["id"], [trait_of(e) for e in elems], dumped, entry))
            rep.count("pairs_split_list_one_dump")
            continue
        if mode < 0.3:
            dumped = set(range(len(elems)))
            e1 = elems + shared + ["dump"]
            if rng.random() < 0.5:
                e1 = elems + ["dump"] + shared
        else:
            k = rng.randrange(len(elems))
            dumped = {k}
            if mode > 0.85 and len(elems) > 1:
                dumped.add(rng.randrange(len(elems)))
            e1 = [add_dump(e) if i in dumped else e for i, e in enumerate(elems)] + shared
        a0, a1 = ", ".join(elems + shared), ", ".join(e1)
        if entry == "attr":
            r0 = {"id": len(reqs), "entry": "attr", "attr": a0, "item": text}
            r1 = {"id": len(reqs) + 1, "entry": "attr", "attr": a1, "item": text}
        else:
            r0 = {"id": len(reqs), "entry": "derive", "attr": "", "item": f"#[derive_ex({a0})] {text}"}
            r1 = {"id": len(reqs) + 1, "entry": "derive", "attr": "", "item": f"#[derive_ex({a1})] {text}"}
        reqs += [r0, r1]
        plan.append(("type", r0["id"], r1["id"], [trait_of(e) for e in elems], dumped, entry))
    obs = C.expand(reqs)
    for kind, i0, i1, traits, dumped, entry in plan:
        rep.evaluations += 1
        o0, o1 = obs[i0], obs[i1]
        if kind == "impl":
            r = compare_impl(o0, o1)
            rep.nontrivial.add(("impl", tuple(traits)))
        else:
            r = compare(o0, o1, traits, dumped, entry)
            for k in dumped:
                rep.nontrivial.add((traits[k], entry, len(dumped) == len(traits)))
        rep.count("pairs_" + kind)
        # how many dumped slots actually carried generated code (rather than an error that dump leaves alone)
        if kind == "type" and o0.get("status") == "ok" and o0.get("parses"):
            g0 = gen_items(o0, entry)[1]
            if not (len(g0) == 1 and g0[0]["kind"] == "compile_error" and len(traits) > 1):
                sl, _ = C.impl_slots(g0, traits)
                for k in dumped:
                    rep.count("dumped_slots_with_code" if sl[k]["status"] == "impl" else "dumped_slots_error_or_missing")
        elif kind == "impl" and o0.get("status") == "ok" and o0.get("parses"):
            rep.count("dumped_slots_with_code" if not any(x["kind"] == "compile_error" for x in gen_items(o0, "attr")[1]) else "dumped_slots_error_or_missing")
        if r:
            rep.violation(f"C19|{r[0]}|{kind}", f"{r[0]}: {reqs[i1]['attr'] or reqs[i1]['item'][:200]}\n{r[1]}",
                          {"r0": reqs[i0], "r1": reqs[i1], "kind": kind, "traits": traits,
                           "dumped": sorted(dumped) if dumped else None, "entry": entry, "detail": r[1]})
    for k in (0, 1):
        kind, i0, i1, traits, dumped, entry = plan[k]
        rep.sample({"without_dump": reqs[i0], "with_dump": reqs[i1], "dumped_positions": sorted(dumped) if dumped else "all"})
    # canary: comparing against the dump of a different trait must be flagged
    ra = {"id": 0, "entry": "attr", "attr": "Clone, Debug", "item": "struct X(u8);"}
    rb = {"id": 1, "entry": "attr", "attr": "Clone, Debug(dump)", "item": "struct X(u8);"}
    oa, ob = C.expand([ra, rb])
    rep.canary = compare(oa, ob, ["Clone", "Debug"], {0}, "attr") is not None and \
        compare(oa, ob, ["Clone", "Debug"], {1}, "attr") is None
    rep.rule = ("generated struct/enum/impl items with helper attributes and bound arguments; each expanded without dump "
                "(E0) and with dump on one trait, two traits, or shared by the list (E1). Oracle: item identical; undumped "
                "traits' items token-identical; a dumped trait's slot is one compile_error! whose text is `dump:\\n` + "
                "tokens that re-lex to exactly E0's items for that trait. distinct_nontrivial = distinct (trait, entry, "
                "shared-or-per-trait) dumped.")


def replay(rep, path):
    j = json.load(open(path))["replay"]
    o0, o1 = C.expand([j["r0"], j["r1"]])
    r = compare_impl(o0, o1) if j["kind"] == "impl" else compare(o0, o1, j["traits"], set(j["dumped"]), j["entry"])
    if r:
        print(f"VIOLATION property=C19 replay={path}\n  {r[0]}: {r[1][:500]}")
        return 1
    print("replay: no violation")
    return 0
