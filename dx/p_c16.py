"""C16 — expansion is total and deterministic (E-exp, in-process mutation fuzzing)."""
import json
import os
import subprocess
import tempfile

from . import common as C
from . import gens

FLOOR = {"quick": 100000, "thorough": 5000000}
COUNT = {"quick": 300000, "thorough": 20000000}


def _sig(f):
    kind = f["kind"]
    d = f.get("detail", "")
    if kind.startswith("panic"):
        # panic message + source location, seed independent
        return f"C16|{kind}|{d.replace(C.REPO.rstrip('/') + '/', '')[-160:]}"
    if kind == "nondeterministic":
        return f"C16|nondeterministic|{f['entry']}"
    return f"C16|{kind}|{d[:80]}"


def confirm(f):
    """Isolation re-run of one finding in a fresh process."""
    req = {"id": 0, "entry": f["entry"], "attr": f["attr"], "item": f["item"], "want_out": True}
    if f.get("none_groups"):
        req["none_groups"] = True
    o1 = C.expand([req], threads=1)[0]
    o2 = C.expand([req], threads=1)[0]
    if o1["status"] == "panic":
        return "panic", o1.get("panic_msg")
    if o1["status"] != "ok":
        return None, None
    if not o1.get("parses"):
        # the oracle for "well-formed" is rustc's parser; syn (used by the in-process monitor) is only a pre-filter
        if rustc_parses_output(o1.get("out", "")):
            return "syn-only", o1.get("parse_err")
        return "output-not-items", o1.get("parse_err")
    if not o1.get("det") or o1.get("out") != o2.get("out"):
        return "nondeterministic", ""
    for it in o1.get("items", []):
        if it["kind"] == "compile_error" and (it.get("msg") is None or not it["msg"].strip()):
            return "empty-error-message", it["text"]
    return None, None


FRAG_EXPRS = ["-1", "!false", "&7", "1 + 2", "7", '"s"', "X::new", "*&3", "- -1", "Self::K", "f(1)", "1..2", "|a, b| a == b", "-1i8 as u8",
              "|a| a", "if true { 1 } else { 2 }", "{ 3 }", "x.y", "a[0]", "(1, 2)", "[1, 2]", "&mut 0", "1 < 2", "loop {}", "return", "_"]
FRAG_TYPES = ["u8", "dyn Tr + Send", "&'static str", "fn(u8) -> u8", "[u8; 2]", "impl Tr", "(u8, u8)", "*const u8", "Vec<T>", "T", "&'a T",
              "for<'b> fn(&'b u8)", "!", "_", "<T as Tr>::A", "dyn for<'b> Tr2<'b>", "Self", "[T]"]


def fragment_reqs():
    """Inputs as they reach the macro from inside a macro_rules! body: `$e:expr` / `$t:ty` fragments are groups without
    delimiters (written `__dx_none(..)` here; dxmon turns them into real ones).  Fixed list: every fragment in every position."""
    N = lambda x: f"__dx_none({x})"
    CMP = "PartialEq, Eq, PartialOrd, Ord, Hash"
    ALL = "Clone, Debug, Default, " + CMP
    out = []
    for e in FRAG_EXPRS:
        n = N(e)
        for attr, item in (
                ("Default", f"struct X {{ #[default({n})] a: u8, b: u8 }}"), ("Default", f"struct X(#[default(2 * {n})] u8);"),
                ("Default, Clone", f"struct X<T> {{ #[default({n}, bound())] a: T }}"), ("Default", f"struct X(#[default({n}.abs())] i8, #[default({n} + 1)] i8);"),
                ("Default, Debug", f"#[default({n})] struct X(u8);"), ("Default", f"#[default({n})] enum E {{ A, B(u8) }}"),
                ("Default", f"enum E {{ A, #[default] B {{ #[default({n})] x: u8 }} }}"), ("Default", f"#[default(({n}))] struct X(u8);"),
                (CMP, f"struct X {{ #[ord(key = {n})] a: u8 }}"), (CMP, f"struct X(#[eq(by = {n})] #[ord(by = {n})] #[hash(by = {n})] u8);"),
                (CMP, f"struct X(#[ord(key = $.len() + {n})] String);"), (CMP, f"enum E {{ A(#[ord(key = {n}, reverse)] u8), B }}"),
                ("PartialEq, Hash", f"struct X(#[partial_eq(key = {n})] #[hash(key = - {n})] u8);"),
                ("Clone, Debug, PartialEq, Default", f"#[repr(u8)] enum E {{ #[default] A = {n}, B = 2 * {n}, C(u8) = {n} }}"),
                (ALL + ", Add, Neg, AddAssign", f"struct X([u8; {n}], [u8; 2 * {n}]);"), (ALL, f"struct X<const K: usize = {n}>([u8; K]);"),
                ("Add, AddAssign", f"impl Add<[u8; {n}]> for X {{ type Output = X; fn add(self, rhs: [u8; {n}]) -> X {{ {n} }} }}"),
                ("Clone(bound(T: Tr<{{ {e} }}>))".replace("{ " + e + " }", "{ " + n + " }"), "struct X<T>(T);"),
                (f"Clone, dump, bound([u8; {n}])", "struct X<T>(T);")):
            out.append({"entry": "attr", "attr": attr, "item": item})
    for t in FRAG_TYPES:
        n = N(t)
        for attr, item in (
                (ALL, f"struct X({n});"), (ALL, f"struct X<'a, T>(&'a {n}, Box<{n}>, Option<{n}>, &'a mut {n}, *const {n}, [{n}; 2]);"),
                (ALL, f"enum E<T> {{ A({n}), B {{ x: {n}, y: T }}, C }}"), ("Deref, DerefMut", f"struct X({n});"), ("Deref, DerefMut", f"struct X<'a> {{ x: &'a {n} }}"),
                ("Add, Sub, Neg, Not, AddAssign", f"struct X({n}, u8);"), (f"Clone(bound({n})), Debug(bound({n}: Tr))", "struct X<T>(T);"),
                (f"Clone, Default, bound({n}, ..)", f"struct X<T>(T, #[default(_, bound({n}))] u8);"),
                ("AddAssign, Sub", f"impl Add<{n}> for X {{ type Output = {n}; fn add(self, rhs: {n}) -> {n} {{ rhs }} }}"),
                ("AddAssign", f"impl Add for {n} {{ type Output = {n}; fn add(self, rhs: Self) -> Self {{ rhs }} }}"),
                ("Add, AddAssign", f"impl<'a> Add<&'a {n}> for &'a {n} {{ type Output = {n}; fn add(self, rhs: &'a {n}) -> {n} {{ todo!() }} }}"),
                ("Add", f"impl<T> AddAssign<{n}> for X<T> where {n}: Tr<Self> {{ fn add_assign(&mut self, rhs: {n}) {{ }} }}")):
            out.append({"entry": "attr", "attr": attr, "item": item})
            if not item.startswith("impl"):
                out.append({"entry": "derive", "attr": "", "item": f"#[derive_ex({attr})] {item}"})
    return out


def rustc_parses_output(out):
    work = tempfile.mkdtemp(prefix="dx-c16o-", dir=C._scratch())
    try:
        src = os.path.join(work, "o.rs")
        open(src, "w").write("#[cfg(any())] mod m {\n" + out + "\n}\nfn main() {}\n")
        r = C.sh(["rustc", "--edition", C.EDITION, "--emit=metadata", "-o", os.path.join(work, "o.rmeta"), src])
        return r.returncode == 0
    finally:
        import shutil
        shutil.rmtree(work, ignore_errors=True)


def rustc_accepts(findings):
    """Domain of the property: items that rustc itself parses (a macro is never handed anything else).
    syn is more lenient (e.g. a field named `_`), so every finding is re-parsed by rustc under
    `#[cfg(any())]`.  Returns a list of booleans."""
    if not findings:
        return []
    work = tempfile.mkdtemp(prefix="dx-c16p-", dir=C._scratch())
    try:
        lines = ["#![allow(unused)]"]
        for f in findings:
            one = " ".join((f"#[derive_ex({f['attr']})] " if f["entry"] == "attr" else "") .split()) + " " + " ".join(f["item"].split())
            lines.append("#[cfg(any())] " + one)
        lines.append("fn main() {}")
        src = os.path.join(work, "p.rs")
        open(src, "w").write("\n".join(lines) + "\n")
        ok = [True] * len(findings)
        # rustc stops at the first syntax error: iterate, blanking the offending line each time
        for _ in range(len(findings) + 1):
            r = C.sh(["rustc", "--edition", C.EDITION, "--error-format=json", "--emit=metadata", "-o",
                      os.path.join(work, "p.rmeta"), src])
            if r.returncode == 0:
                break
            bad = None
            for l in r.stderr.splitlines():
                if l.startswith("{"):
                    d = json.loads(l)
                    if d.get("level") == "error":
                        for sp in d.get("spans", []):
                            ln = sp.get("line_start")
                            if ln and 2 <= ln <= len(findings) + 1:
                                bad = ln
                                break
                    if bad:
                        break
            if bad is None:
                raise C.Inconclusive("rustc parse check failed without a usable span: " + r.stderr[-500:])
            ok[bad - 2] = False
            lines[bad - 1] = "// out of domain"
            open(src, "w").write("\n".join(lines) + "\n")
        return ok
    finally:
        import shutil
        shutil.rmtree(work, ignore_errors=True)


def run(rep, tier, rng):
    exe = C.build_a()
    seeds = C.harvest_seeds()
    extra = gens.fuzz_seeds(rng)
    work = tempfile.mkdtemp(prefix="dx-c16-", dir=C._scratch())
    try:
        sp = os.path.join(work, "seeds.jsonl")
        with open(sp, "w") as f:
            for s in seeds + extra:
                f.write(json.dumps(s) + "\n")
        # canary: the monitor must flag each class of broken expander
        st = subprocess.run([exe, "selftest"], capture_output=True, text=True, env=C.ENV)
        try:
            kinds = json.loads(st.stdout)["kinds"]
        except Exception:
            kinds = []
        rep.canary = kinds == ["panic", "output-not-items", "empty-error-message", "nondeterministic", "none"]
        rep.extra["canary_kinds"] = kinds
        count = COUNT[tier]
        try:
            r = subprocess.run([exe, "fuzz", sp, str(rep.seed), str(count), str(C.NPROC)],
                               capture_output=True, text=True, env=C.ENV, timeout=3600)
        except subprocess.TimeoutExpired:
            raise C.Inconclusive("fuzz loop watchdog (3600 s)")
        summ = None
        for l in r.stdout.splitlines():
            if l.startswith("{"):
                j = json.loads(l)
                if j.get("watchdog"):
                    rep.inconcl("expansion did not finish within 20 s (termination cannot be decided by a finite run): "
                                + j.get("input", "")[:400])
                    rep.count("watchdog")
                else:
                    summ = j
        if summ is None or "executed" not in summ:
            raise C.Inconclusive(f"fuzz loop produced no summary (exit {r.returncode}): {r.stderr[-1000:]}")
        rep.evaluations = summ["executed"]
        rep.count("expansions_monitored", summ["executed"])
        rep.count("mutants_rejected_as_not_an_item", summ["rejected_unparseable"])
        rep.count("seeds", summ["seeds"])
        rep.extra["top_outcome_classes"] = summ["top_classes"]
        rep.extra["distinct_outcome_classes"] = summ["distinct_outcome_classes"]
        for i in range(summ["distinct_outcome_classes"]):
            rep.nontrivial.add(i)
        for s in summ["samples"]:
            rep.sample(s, cap=6)
        rep.rule = ("mutants of the seed corpus (every derive_ex item of derive-ex-tests/tests and doc/derive_ex.md, plus "
                    "generator output) that still parse as an item; 1-3 structure-aware token-tree mutations each "
                    "(delete/duplicate/swap/splice/move attributes, arguments, fields, variants, generics; dictionary "
                    "tokens; keyword/delimiter change; entry-point flip). Each is expanded twice under catch_unwind; "
                    "output must parse as items, every compile_error! must carry a non-empty message, both runs must "
                    "be token-identical. distinct_nontrivial = distinct outcome classes (sequence of emitted item kinds "
                    "/ trait names / error-message prefixes) observed.")
        rep.assumptions = ["termination is only observed (20 s watchdog per expansion); unbounded termination is out of reach",
                           "build A runs the same `build`/`build_derive` functions as the two proc-macro entry points"]
        seen = set()
        dom = rustc_accepts(summ["findings"])
        for f, in_domain in zip(summ["findings"], dom):
            if not in_domain:
                rep.count("findings_outside_domain_rustc_rejects_item")
                continue
            sig = _sig(f)
            if sig in seen:
                continue
            kind, detail = confirm(f)
            if kind == "syn-only":
                rep.count("output_rejected_by_syn_but_accepted_by_rustc")
                continue
            if kind is None:
                rep.inconcl(f"finding {f['kind']} did not reproduce in isolation")
                continue
            seen.add(sig)
            rep.violation(sig, f"{kind}: {str(detail)[:300]} on #[derive_ex({f['attr']})] {f['item'][:300]}",
                          {"entry": f["entry"], "attr": f["attr"], "item": f["item"], "kind": kind, "detail": detail})
        # cross-process determinism on the unmodified seeds and on fresh generator output (fresh process, fresh hash seeds)
        more = []
        for _ in range(3000 if tier == "quick" else 30000):
            it, derived = gens.gen_type_item(rng)
            elems, shared = gens.gen_trait_args(rng, derived)
            more.append({"entry": "attr", "attr": ", ".join(elems + shared), "item": gens.render(it)})
        seeds_x = seeds + extra + more
        reqs = [{"id": i, "entry": s["entry"], "attr": s["attr"], "item": s["item"], "want_out": True}
                for i, s in enumerate(seeds_x)]
        a = C.expand(reqs)
        b = C.expand(reqs)
        nd = 0
        for x, y, s in zip(a, b, seeds_x):
            rep.count("cross_process_pairs")
            if x.get("status") == "panic":
                rep.violation("C16|panic|" + str(x.get("panic_msg"))[-120:], f"panic: {x.get('panic_msg')} on #[derive_ex({s['attr']})] {s['item'][:200]}",
                              {"entry": s["entry"], "attr": s["attr"], "item": s["item"], "kind": "panic"})
                continue
            if x.get("det") is False or y.get("det") is False:
                rep.violation("C16|nondeterministic", f"two expansions in one process differ: #[derive_ex({s['attr']})] {s['item'][:200]}",
                              {"entry": s["entry"], "attr": s["attr"], "item": s["item"], "kind": "nondeterministic"})
                continue
            if x.get("out") != y.get("out") or x.get("status") != y.get("status"):
                nd += 1
                rep.violation("C16|nondeterministic-across-processes",
                              f"two processes expand differently: #[derive_ex({s['attr']})] {s['item'][:200]}",
                              {"entry": s["entry"], "attr": s["attr"], "item": s["item"], "kind": "nondeterministic"})
        rep.evaluations += len(reqs)
        # macro_rules! fragments (groups without delimiters) in every position derive_ex looks into: no panic, same output twice.
        # (Whether the output, printed as text, parses is not judged here: printing drops the invisible delimiters.)
        fr = fragment_reqs()
        freqs = [dict(r, id=i, none_groups=True, want_out=True) for i, r in enumerate(fr)]
        fa = C.expand(freqs)
        fb = C.expand(freqs)
        for x, y, s in zip(fa, fb, fr):
            rep.count("fragment_inputs_expanded")
            rp = {"entry": s["entry"], "attr": s["attr"], "item": s["item"], "none_groups": True}
            if x.get("status") == "panic":
                msg = str(x.get("panic_msg")).replace(C.REPO.rstrip("/") + "/", "")
                rep.violation("C16|panic|fragment|" + msg[-120:], f"panic: {msg} on #[derive_ex({s['attr']})] {s['item'][:200]} (`__dx_none(..)` = a macro fragment)",
                              dict(rp, kind="panic"))
            elif x.get("status") == "ok" and (x.get("det") is False or x.get("out") != y.get("out")):
                rep.violation("C16|nondeterministic|fragment", f"two expansions differ: #[derive_ex({s['attr']})] {s['item'][:200]}", dict(rp, kind="nondeterministic"))
            elif x.get("status") == "ok":
                rep.nontrivial.add(("fragment", x.get("out", "")[:40]))
        rep.evaluations += len(freqs)
    finally:
        import shutil
        shutil.rmtree(work, ignore_errors=True)


def replay(rep, path):
    j = json.load(open(path))["replay"]
    kind, detail = confirm(j)
    if kind and kind != "syn-only":
        print(f"VIOLATION property=C16 replay={path}\n  {kind}: {detail}")
        return 1
    print("replay: no violation")
    return 0
