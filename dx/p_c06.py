"""C06 — Hash feeds exactly the effective inputs of non-ignored fields, in order (E-run, recording hasher)."""
import itertools
import json

from . import common as C
from . import cmpmodel as M
from . import cmpgen as G

FLOOR = {"quick": 3000, "thorough": 50000}
NRANDOM = {"quick": 1200, "thorough": 15000}
HEADER = "#![allow(warnings)]"


def derive_sets():
    out = []
    for s in M.closed_subsets():
        if "Hash" in s:
            out.append(s)
    # Hash with non-closed companions is not needed: Hash has no supertraits; closed sets cover the helper interplay
    return out


def check_case(spec, events):
    tables = G.tables_from_events(events)
    feeds = next((e["l"] for e in events if e.get("k") == "feeds"), None)
    if feeds is None:
        return [("no-feeds", None, None, None)]
    pred = G.predict_feeds(spec, tables)
    bad = []
    vals = G.values(spec)
    obs = [[x for x in f.split(";") if x] for f in feeds]
    for i, (p, o) in enumerate(zip(pred, obs)):
        if p != o:
            bad.append(("feed", i, p, o))
            break
    # corollaries on same-variant pairs: equal effective inputs <=> identical feed
    for i, (va, ia) in enumerate(vals):
        for j, (vb, ib) in enumerate(vals):
            if va != vb or i >= j:
                continue
            same_inputs = pred[i] == pred[j]
            if same_inputs != (obs[i] == obs[j]):
                bad.append(("corollary", (i, j), same_inputs, obs[i] == obs[j]))
                return bad
    return bad


def core(rng):
    specs = []
    plainV = lambda: {"ft": "V", "combo": ("-",) * 5, "key": {a: G.FT["V"]["key"][a][0][0] for a in M.ATTRS},
                      "keycaps": {a: sorted(G.TOTAL) for a in M.ATTRS}, "by": {a: G.FT["V"]["by"][a][0] for a in M.ATTRS},
                      "dom": [f"{G.V}(1)", f"{G.V}(4)"]}
    k = 0
    for combo in M.all_combos():
        if sum(o != "-" for o in combo) > 2:
            continue
        if all(combo[i] == "-" for i in (0, 2, 4)):
            continue   # only ord / eq / hash attributes matter to Hash
        for d in derive_sets():
            for ft in ("V", "VecV"):
                keysel = {a: G.FT[ft]["key"][a][0] for a in M.ATTRS}
                if not G.field_ok(ft, combo, keysel, d, hash_ignore_ok=(d == ["Hash"])):
                    continue
                k += 1
                if k % 3:
                    continue
                f = {"ft": ft, "combo": combo, "key": {a: keysel[a][0] for a in M.ATTRS},
                     "keycaps": {a: sorted(keysel[a][1]) for a in M.ATTRS},
                     "by": {a: G.FT[ft]["by"][a][0] for a in M.ATTRS}, "dom": G.FT[ft]["dom"][:3]}
                kind = "struct" if k % 2 else "enum"
                vs = [{"style": "named", "fields": [plainV(), f, plainV()]}]
                if kind == "enum":
                    vs.append({"style": "tuple", "fields": [plainV()]})
                specs.append({"kind": kind, "variants": vs, "derived": d, "entry": "attr" if k % 4 < 2 else "derive", "generic": False})
    # Debug co-derived with #[debug(ignore)] on hashed fields; the trait list split over two attributes
    for entry in ("attr", "derive"):
        for cb in ("first", "last"):
            f1, f2 = plainV(), plainV()
            f1["dbg_ignore"] = True
            specs.append({"kind": "struct", "variants": [{"style": "named", "fields": [plainV(), f1, f2]}], "derived": ["Hash"], "entry": entry,
                          "generic": False, "codebug": cb, "split": 1})
            specs.append({"kind": "enum", "variants": [{"style": "tuple", "fields": [dict(f1), plainV()]}, {"style": "unit", "fields": []}],
                          "derived": ["PartialEq", "Hash"], "entry": entry, "generic": False, "codebug": cb})
    # twelve fields: member names / tuple indices whose text order differs from the declaration order (f10 < f2)
    for style in ("tuple", "named"):
        for kind in ("struct", "enum"):
            fs = []
            for i in range(12):
                f = plainV()
                f["dom"] = [f"{G.V}({i % 6})"] if i not in (2, 10) else [f"{G.V}(1)", f"{G.V}(4)"]
                fs.append(f)
            vs = [{"style": style, "fields": fs}] + ([{"style": "unit", "fields": []}] if kind == "enum" else [])
            specs.append({"kind": kind, "variants": vs, "derived": ["Hash"], "entry": "attr" if style == "tuple" else "derive", "generic": False})
    return specs


def run(rep, tier, rng):
    from . import p_c01
    specs = core(rng)
    rep.count("core_types", len(specs))
    sets = derive_sets()
    n0 = len(specs)
    while len(specs) < n0 + NRANDOM[tier]:
        d = rng.choice(sets)
        s = G.gen_spec(rng, d, max_vals=30, hash_ignore_ok=(d == ["Hash"]), plain_p=0.25)
        if s:
            specs.append(s)
    cases = []
    for i, s in enumerate(specs):
        cases.append(C.Case(f"c{i}", G.render(s, want_hash=True), {"spec": s}))
        cases.append(C.Case(f"k{i}", G.control(s), {}))
    _, notes = C.run_cases(cases, "c06", header=HEADER, batch_size=80)
    for n in notes:
        rep.inconcl(n)
    by = {c.name: c for c in cases}
    sigs = {}
    shown = 0
    for i, s in enumerate(specs):
        c, k = by[f"c{i}"], by[f"k{i}"]
        if "inconclusive" in (c.status, k.status):
            continue
        if k.status != "ok":
            rep.inconcl(f"generator control does not compile: {G.describe(s)}")
            continue
        desc = G.describe(s)
        if c.status == "compile_fail":
            # the control (same user-written pieces without derive_ex) compiled, so the failure is the macro's
            d0 = next((d for d in c.diags if d["level"] == "error" and d["in_derive_ex"]), None) or \
                next((d for d in c.diags if d["level"] == "error"), {"code": None, "message": "?"})
            codes = [str(d0["code"])]
            msg = d0["message"] or ""
            rep.count("types_compile_fail")
            sigs.setdefault(f"C06|compile_fail|{'+'.join(codes)}|{msg[:50]}", []).append(
                (s, f"accepted placement does not compile ({msg[:160]}): {desc}", {"spec": s, "diags": c.diags[:4], "code": c.code}))
            continue
        rep.count("types_compiled_and_run")
        try:
            bad = check_case(s, c.events)
        except KeyError as e:
            rep.inconcl(f"event log incomplete for {desc}: {e}")
            continue
        rep.evaluations += len(G.values(s))
        feats = tuple(sorted({(f["ft"], f["combo"][0], f["combo"][2], f["combo"][4]) for v in s["variants"] for f in v["fields"]
                              if (f["combo"][0], f["combo"][2], f["combo"][4]) != ("-", "-", "-")}))
        if feats:
            rep.nontrivial.add((s["kind"], tuple(s["derived"]), feats))
        if shown < 3 and feats:
            shown += 1
            feeds = next((e["l"] for e in c.events if e.get("k") == "feeds"), [])
            rep.sample({"type": desc, "source": G.type_text(s, "Ty", ", ".join(s["derived"])), "first_feeds": feeds[:3]})
        for b in bad:
            srcs = sorted({str(G.hash_source(f)) + "/" + f["ft"] for v in s["variants"] for f in v["fields"] if f["combo"] != ("-",) * 5})
            sigs.setdefault(f"C06|{b[0]}|{','.join(srcs)[:120]}", []).append(
                (s, f"{b[0]} at {b[1]}: predicted {str(b[2])[:200]} observed {str(b[3])[:200]}: {desc}",
                 {"spec": s, "bad": [str(x) for x in b], "code": c.code}))
    for sig, lst in sigs.items():
        s, what, replay = lst[0]
        c = C.compile_single(G.render(s, want_hash=True), header=HEADER)
        if (c.status == "compile_fail" and "compile_fail" in sig) or (c.status == "ok" and check_case(s, c.events)):
            rep.violation(sig, what + f" [{len(lst)} cases]", replay)
        else:
            rep.inconcl(f"finding did not reproduce in isolation: {sig}")
    # canary: a model that takes the key from `ord` before `eq` must be noticed on a case with both keys
    for i, s in enumerate(specs):
        c = by[f"c{i}"]
        if c.status == "ok" and any(M.flags(f["combo"][0])["key"] and M.flags(f["combo"][2])["key"] and
                                    G.hash_source(f) == "key:eq" for v in s["variants"] for f in v["fields"]):
            orig = G.hash_source
            G.hash_source = lambda f: "key:ord" if (M.flags(f["combo"][0])["key"] and orig(f) == "key:eq") else orig(f)
            try:
                rep.canary = bool(check_case(s, c.events))
            finally:
                G.hash_source = orig
            break
    # ---- key expressions assembled by a macro_rules! macro from `$e:expr` / `$t:ty` fragments (invisible groups) ----
    fcases = []
    for k, (entry, kind) in enumerate((("attr", "struct"), ("derive", "struct"), ("attr", "enum"), ("derive", "enum"))):
        head = "#[::derive_ex::derive_ex(Hash)]" if entry == "attr" else "#[derive(::derive_ex::Ex)] #[derive_ex(Hash)]"
        body = "{ #[hash(key = $d * $m)] a: u32, #[hash(key = ($d as $t) % $m)] b: u8, c: u8 }"
        item = f"pub struct Ty {body}" if kind == "struct" else f"pub enum Ty {{ V0, V1 {body} }}"
        ctor = "Ty { a: 5, b: 7, c: 1 }" if kind == "struct" else "Ty::V1 { a: 5, b: 7, c: 1 }"
        code = (f"macro_rules! mk {{ ($d:tt, $m:expr, $t:ty) => {{ {head} {item} }} }}\nmk!($, 2 + 1, u16);\n"
                f'pub fn run() {{ let x = {ctor}; let mut want = ::std::vec::Vec::new(); '
                + ('' if kind == "struct" else 'want.push(::dxrt::RecHasher::of(&::core::mem::discriminant(&x))); ') +
                f'want.push(::dxrt::RecHasher::of(&(5u32 * (2 + 1)))); want.push(::dxrt::RecHasher::of(&((7u8 as u16) % (2 + 1)))); want.push(::dxrt::RecHasher::of(&1u8)); '
                f'::dxrt::ev!("frag", "got" => ::dxrt::RecHasher::of(&x), "want" => want.join(";")); }}')
        fcases.append(C.Case(f"f{k}", code, {"what": f"{kind} {entry}"}))
    # .. and from fragments that are not expressions with an operator: lifetime, path (as a struct-literal path), stmt, literal, block
    for k, entry in enumerate(("attr", "derive")):
        head = "#[::derive_ex::derive_ex(Hash)]" if entry == "attr" else "#[derive(::derive_ex::Ex)] #[derive_ex(Hash)]"
        body = ("{ #[hash(key = { let r: &$lt str = $d; r.len() })] a: &$lt str, #[hash(key = $p { v: $d }.v)] b: u8, #[hash(key = { $s; $d * $k })] c: u8, "
                "#[hash(key = $d + $l)] d: u8, #[hash(key = $d * $b)] e: u8, #[hash(key = $d.max($n.abs()))] f: i32, #[hash(key = $d >> $o)] g: u32, #[hash(key = $o << 4 | $d)] h: u32 }")
        code = ("pub struct W { pub v: u8 }\n"
                f"macro_rules! mk {{ ($d:tt, $lt:lifetime, $p:path, $s:stmt, $k:ident, $l:literal, $b:block, $n:expr, $o:expr) => {{ {head} pub struct Ty<$lt> {body} }} }}\n"
                "mk!($, 'a, W, let k = 3u8, k, 4, { 1 + 1 }, -3i32, 4 & 3);\n"
                'pub fn run() { let x = Ty { a: "ab", b: 7, c: 2, d: 1, e: 3, f: -5, g: 64, h: 1 }; let mut want = ::std::vec::Vec::new(); '
                'want.push(::dxrt::RecHasher::of(&2usize)); want.push(::dxrt::RecHasher::of(&7u8)); want.push(::dxrt::RecHasher::of(&6u8)); '
                'want.push(::dxrt::RecHasher::of(&5u8)); want.push(::dxrt::RecHasher::of(&6u8)); want.push(::dxrt::RecHasher::of(&3i32)); want.push(::dxrt::RecHasher::of(&64u32)); want.push(::dxrt::RecHasher::of(&1u32)); '
                '::dxrt::ev!("frag", "got" => ::dxrt::RecHasher::of(&x), "want" => want.join(";")); }')
        fcases.append(C.Case(f"f{4 + k}", code, {"what": f"struct {entry} (lifetime/path/stmt/literal/block fragments)"}))
    _, fnotes = C.run_cases(fcases, "c06f", header=HEADER, batch_size=4)
    for n in fnotes:
        rep.inconcl(n)
    for c in fcases:
        if c.status == "inconclusive":
            continue
        rep.evaluations += 1
        rep.count("macro_fragment_key_cases")
        ev = next((e for e in c.events if e.get("k") == "frag"), None)
        if c.status == "compile_fail":
            who, d = C.blame(c)
            if who == "harness":
                rep.inconcl(f"macro-fragment program does not compile outside derive_ex's output: {str(d['message'])[:120]}")
            else:
                rep.violation(f"C06|macro-fragment-key|compile_fail|{c.meta['what'].split()[0]}", f"{c.meta['what']}: {d['code']}: {(d['message'] or '')[:150]}", {"spec": None, "code": c.code})
        elif ev is None:
            rep.inconcl("no observation in " + c.name)
        elif c.meta["what"].startswith("struct") and ev["got"] != ev["want"]:
            rep.violation(f"C06|macro-fragment-key|feed|struct", f"key built from macro fragments: fed {ev['got']}, the key expressions as written give {ev['want']}\n{c.code[:300]}",
                          {"spec": None, "code": c.code})
        elif c.meta["what"].startswith("enum") and not ev["got"].endswith(ev["want"].split(";", 1)[1]):
            rep.violation(f"C06|macro-fragment-key|feed|enum", f"key built from macro fragments: fed {ev['got']}, the key expressions as written give ..;{ev['want'].split(';', 1)[1]}\n{c.code[:300]}",
                          {"spec": None, "code": c.code})
    rep.rule = ("generated structs/enums with Hash derived alone or with its supertrait-closed companions, accepted placements "
                "of hash/eq/ord ignore/key/by (field types as in C01, incl. Sh with an inherent hash(); 12-field shapes); the feed recorded by a recording Hasher (sequence of write_* calls) for every "
                "value of the cartesian value set is compared with the concatenation, in declaration order, of reference "
                "feeds of each non-ignored field's effective input (hash.by > hash.key > eq.key > ord.key > field); plus the "
                "equal-inputs <=> identical-feed corollary on all same-variant pairs. evaluations = values hashed.")


def replay(rep, path):
    j = json.load(open(path))["replay"]
    s = j["spec"]
    if s is None:
        c = C.compile_single(j["code"], header=HEADER)
        ev = next((e for e in c.events if e.get("k") == "frag"), None)
        bad = c.status == "compile_fail" or (ev is not None and not ev["got"].endswith(ev["want"].split(";", 1)[1] if "discriminant" in j["code"] else ev["want"]))
        print(f"VIOLATION property=C06 replay={path}" if bad else "replay: no violation")
        return 1 if bad else 0
    s["variants"] = [{"style": v["style"], "fields": [dict(f, combo=tuple(f["combo"])) for f in v["fields"]]} for v in s["variants"]]
    c = C.compile_single(G.render(s, want_hash=True), header=HEADER)
    if c.status == "compile_fail" or (c.status == "ok" and check_case(s, c.events)):
        print(f"VIOLATION property=C06 replay={path}")
        return 1
    print("replay: no violation")
    return 0
