"""C13 — generated code is hygienic: user-chosen names never change its meaning (E-run, metamorphic)."""
import json
import re

from . import common as C
from . import gens
from . import progs

FLOOR = {"quick": 600, "thorough": 8000}
NBASE = {"quick": 150, "thorough": 1200}
NTRANS = {"quick": 8, "thorough": 20}
HEADER = "#![allow(warnings)]"

KEYWORDS = set("as break const continue crate else enum extern false fn for if impl in let loop match mod move mut pub ref return self Self "
               "static struct super trait true type unsafe use where while async await dyn abstract become box do final macro override "
               "priv typeof unsized virtual yield try gen union".split())
RAW_OK = ["r#type", "r#match", "r#fn", "r#loop", "r#move", "r#ref", "r#in", "r#as", "r#where", "r#impl", "r#struct", "r#enum", "r#dyn", "r#let"]
PRELUDE = ["Option", "Some", "None", "Ok", "Err", "Result", "Eq", "PartialEq", "Ord", "PartialOrd", "Fn", "FnMut", "FnOnce", "Clone",
           "Copy", "Default", "Ordering", "Hasher", "Hash", "Debug", "Formatter", "Box", "Vec", "String", "Sized", "Into", "From",
           "Iterator", "Drop", "Send", "Sync", "ToString", "AsRef", "bool", "usize", "Add", "Deref", "Neg", "Output", "Target",
           "Less", "Greater", "Equal", "core", "std", "cmp", "fmt", "ops", "hash", "marker", "clone", "default", "option"]
# identifiers the harness itself uses as locals / items: renaming a role to one of these would break the harness, not the macro
HARNESS = set("a b c d e h i j k l m n p q r s t u v w x y z x0 x1 x2 x3 da db db0 dx dy tw sd run dump vals got want which live0 live1 "
              "K K32 make Inner A O by call main u8 u16 u32 u64 i8 i16 i32 i64 f32 f64 char str isize tid p1 p2 q1 q2 eq0".split())

# names the property statement lists explicitly + ones the expander used to introduce: always part of the dictionary
CLASSIC = ["H", "T", "this", "other", "state", "f", "rhs", "source", "lhs", "o", "to_index", "_eq", "_f", "_this", "_self_f0", "_other_f0",
           "_this_f0", "_f0", "l_f0", "r_f0", "_self_0", "_other_0", "l_0", "r_0", "_0", "eq", "cmp", "partial_cmp", "hash", "fmt", "clone",
           "value", "result", "Self_", "Output", "Rhs", "Target"]
CLASSIC_LT = ["'a", "'b", "'x", "'this"]

FIELD_PAIRS = [("val", "_val"), ("_this", "this"), ("f", "_f"), ("other", "other_"), ("r#type", "type_"), ("state", "_state"), ("_0", "_1"), ("o", "_o")]

ROLE_TOKENS = {
    "type": ["Ty", "Ty2"],
    "field": ["f0", "f1", "f2", "f3"],
    "variant": ["V0", "V1", "V2", "V3", "V4"],
    "tparam": ["T", "U"],
    "cparam": ["N"],
    "lifetime": ["'l"],
}


def harvest_dictionary(rng):
    """Every identifier / lifetime the expansion introduces, harvested from the real expander's output."""
    seeds = C.harvest_seeds() + gens.fuzz_seeds(rng)
    reqs = [{"id": i, "entry": s["entry"], "attr": s["attr"], "item": s["item"], "want_idents": True} for i, s in enumerate(seeds)]
    idents, lifetimes = set(), set()
    for o in C.expand(reqs):
        for x in o.get("new_idents", []) or []:
            if x.startswith("'"):
                lifetimes.add(x)
            else:
                idents.add(x)
    idents = {x for x in idents if re.fullmatch(r"[A-Za-z_][A-Za-z0-9_]*", x) and not x.startswith("__") and x not in KEYWORDS and x != "_"}
    lifetimes = {x for x in lifetimes if not x.startswith("'__") and x not in ("'static", "'_")}
    return sorted(idents | set(CLASSIC)), sorted(lifetimes | set(CLASSIC_LT))


def pick_names(rng, code, roles, idents, lifetimes):
    """A consistent renaming {base token -> new name} for the chosen roles."""
    mapping = {}
    used = set()
    pool_any = idents + PRELUDE + RAW_OK
    for role in roles:
        for tok in ROLE_TOKENS[role]:
            if not re.search((r"'l\b" if role == "lifetime" else r"\b" + re.escape(tok) + r"\b"), code):
                continue
            for _ in range(50):
                if role == "lifetime":
                    cand = rng.choice(lifetimes + ["'T", "'H"])
                else:
                    cand = rng.choice(pool_any)
                    if role == "type" and cand.startswith("r#"):
                        continue
                    if cand in HARNESS or cand in used or cand in sum(ROLE_TOKENS.values(), []):
                        continue
                    if role != "field" and cand in ("core", "std", "dxrt", "derive_ex"):
                        pass
                if cand in used:
                    continue
                used.add(cand)
                mapping[tok] = cand
                break
    return mapping


def apply_map(text, mapping):
    if not mapping:
        return text
    # single pass so that chains (T -> U, U -> T) stay consistent
    toks = sorted(mapping, key=len, reverse=True)
    pat = "|".join((re.escape(t) + r"\b") if t.startswith("'") else (r"(?<![A-Za-z0-9_#'])" + re.escape(t) + r"\b") for t in toks)
    return re.sub(pat, lambda m: mapping[m.group(0)], text)


def log_map(mapping):
    """Names as they appear in Debug output: raw identifiers print without r#."""
    return {k: (v[2:] if v.startswith("r#") else v) for k, v in mapping.items() if not k.startswith("'")}


SHADOW = """
#[allow(unused_imports)] use self::shadowed::*;
pub mod shadowed {
    pub struct Option; pub struct Result; pub struct Ordering; pub struct String; pub struct Vec; pub struct Box; pub struct Formatter;
    pub struct Some; pub struct None; pub struct Ok; pub struct Err; pub struct Less; pub struct Equal; pub struct Greater;
    pub struct bool; pub struct usize;
    pub trait Eq {} pub trait PartialEq {} pub trait Ord {} pub trait PartialOrd {} pub trait Clone {} pub trait Copy {} pub trait Default {}
    pub trait Debug {} pub trait Hash {} pub trait Hasher {} pub trait Fn {} pub trait FnMut {} pub trait FnOnce {} pub trait Into {} pub trait From {}
    pub trait Sized {} pub trait Iterator {} pub trait Drop {} pub trait Send {} pub trait Sync {} pub trait Add {} pub trait Neg {} pub trait Deref {}
    pub fn drop() {} pub mod core {} pub mod std {}
}
"""


def shadow_transform(code):
    return SHADOW + code


# A second hostile scope: traits named like the std ones, WITH methods / associated functions of the same names and
# blanket impls.  Generated code that says `x.clone()` or `<T>::default()` instead of going through `::core::..::Trait`
# becomes ambiguous (or silently calls these).
SHADOW2 = """
#[allow(unused_imports)] use self::shadowed2::*;
pub mod shadowed2 {
    pub trait Clone { fn clone(&self) -> u8 { 0 } fn clone_from(&mut self, _s: &Self) {} }
    impl<T: ?::core::marker::Sized> Clone for T {}
    pub trait Default { fn default() -> u8 { 0 } }
    impl<T: ?::core::marker::Sized> Default for T {}
    pub trait PartialEq { fn eq(&self, _o: &Self) -> u8 { 0 } fn ne(&self, _o: &Self) -> u8 { 0 } }
    impl<T: ?::core::marker::Sized> PartialEq for T {}
    pub trait PartialOrd { fn partial_cmp(&self, _o: &Self) -> u8 { 0 } fn lt(&self, _o: &Self) -> u8 { 0 } }
    impl<T: ?::core::marker::Sized> PartialOrd for T {}
    pub trait Ord { fn cmp(&self, _o: &Self) -> u8 { 0 } }
    impl<T: ?::core::marker::Sized> Ord for T {}
    pub trait Hash { fn hash(&self, _s: &mut u8) {} }
    impl<T: ?::core::marker::Sized> Hash for T {}
    pub trait Debug { fn fmt(&self, _f: &mut u8) -> u8 { 0 } }
    impl<T: ?::core::marker::Sized> Debug for T {}
    pub trait Into { fn into(&self) -> u8 { 0 } }
    impl<T: ?::core::marker::Sized> Into for T {}
    pub trait Add { fn add(&self, _o: &Self) -> u8 { 0 } fn add_assign(&mut self, _o: &Self) {} fn sub(&self, _o: &Self) -> u8 { 0 } }
    impl<T: ?::core::marker::Sized> Add for T {}
    pub trait Neg { fn neg(&self) -> u8 { 0 } fn not(&self) -> u8 { 0 } }
    impl<T: ?::core::marker::Sized> Neg for T {}
    pub trait Deref { fn deref(&self) -> u8 { 0 } fn deref_mut(&mut self) -> u8 { 0 } }
    impl<T: ?::core::marker::Sized> Deref for T {}
}
"""


def attr_end(code, i):
    """Index just after the attribute `#[..]` that starts at i (bracket matching, string literals skipped)."""
    n, depth, instr = len(code), 0, False
    k = code.index("[", i)
    while k < n:
        ch = code[k]
        if instr:
            if ch == "\\":
                k += 1
            elif ch == '"':
                instr = False
        elif ch == '"':
            instr = True
        elif ch in "[({":
            depth += 1
        elif ch in "])}":
            depth -= 1
            if depth == 0:
                return k + 1
        k += 1
    return n


def macro_forward(code, attrs_in_body=True):
    """Every item that carries derive_ex is passed through a trivial macro_rules! macro.  attrs_in_body: the item's outer
    attributes (derive_ex among them) are written in the macro's body and only the item itself is an argument - the usual
    way a macro generates derived types; otherwise (the control) attributes and item are all arguments.  Returns None if
    the program has no such item or the attributes contain `$`."""
    lines = code.split("\n")
    starts = [0]
    for l in lines:
        starts.append(starts[-1] + len(l) + 1)
    out, pos, n = [], 0, 0
    for (a, b) in dx_item_ranges(code):
        # the item group begins with the first of the consecutive attribute lines above the derive_ex attribute
        while a > 1 and lines[a - 2].lstrip().startswith("#[") and lines[a - 2].rstrip().endswith("]"):
            a -= 1
        s0 = starts[a - 1]
        e0 = starts[b] - 1 if b < len(starts) else len(code)
        if s0 < pos:
            continue
        # split leading attributes from the item
        i = s0
        while True:
            j = i
            while j < len(code) and code[j] in " \t\n":
                j += 1
            if code.startswith("#", j) and code[j + 1:j + 2] in "[ ":
                i = attr_end(code, j)
            else:
                break
        attrs, item = code[s0:i], code[i:e0]
        if "$" in attrs or not item.strip():
            return None
        n += 1
        out.append(code[pos:s0])
        if attrs_in_body:
            out.append(f"macro_rules! __fw{n} {{ ($($__tt:tt)*) => {{ {attrs} $($__tt)* }} }}\n__fw{n}! {{ {item} }}")
        else:
            out.append(f"macro_rules! __fw{n} {{ ($($__tt:tt)*) => {{ $($__tt)* }} }}\n__fw{n}! {{ {attrs} {item} }}")
        pos = e0
    if not n:
        return None
    out.append(code[pos:])
    return "".join(out)


def judge_scope(base, trans, control=None):
    """For the transforms that rename nothing (second shadow scope, macro forwarding)."""
    if base.status != "ok" or trans.status == "inconclusive":
        return ("skip", "")
    if control is not None and control.status != "ok":
        return ("harness", "the control of the transform does not compile")
    if trans.status == "compile_fail":
        who, d = C.blame(trans)
        outside = [x for x in trans.diags if x["level"] == "error" and not x["in_derive_ex"] and x["code"] is not None]
        if control is None and (outside or who == "harness"):
            return ("harness", f"{d['code']}: {str(d['message'])[:120]}")
        return ("compiles-differently", f"{d['code']}: {(d['message'] or '')[:160]}")
    ev_b = json.dumps([{k: v for k, v in e.items() if k != "c"} for e in base.events], sort_keys=True)
    ev_t = json.dumps([{k: v for k, v in e.items() if k != "c"} for e in trans.events], sort_keys=True)
    if ev_b != ev_t:
        return ("computes-differently", "event logs differ")
    return None


NO_STD_ITEMS = [
    ("Copy, Clone, Debug, Default, Ord, PartialOrd, Eq, PartialEq, Hash", "pub struct Ty { f0: u8, f1: (u8, i8), f2: ::core::option::Option<u8> }"),
    ("Copy, Clone, Debug, Default, Ord, PartialOrd, Eq, PartialEq, Hash", "pub enum Ty<T> { #[default] V0, V1(T), V2 { f0: [u8; 3], f1: &'static str } }"),
    ("Ord, PartialOrd, Eq, PartialEq, Hash", "pub struct Ty(#[ord(key = $ % 3)] u8, #[eq(ignore)] u8, #[ord(by = |a, b| a.cmp(b), reverse)] i8);"),
    ("Clone, Debug", "pub enum Ty { V0(#[debug(ignore)] u8), V1 { #[debug(transparent)] f0: u8 } }"),
    ("Default", "pub struct Ty { #[default(5)] f0: u8, #[default(\"x\")] f1: &'static str, f2: ::core::option::Option<u8> }"),
    ("Add, AddAssign, Sub, Neg, Not, Shl, BitXorAssign", "pub struct Ty<T>(T, i32);"),
    ("Deref, DerefMut", "pub struct Ty<T>(T);"),
    ("Clone, Debug, PartialEq, Eq, PartialOrd, Ord, Hash", "pub enum Ty {}"),
]


DX_ATTR_NAMES = ("derive_ex", "::derive_ex::derive_ex", "ord", "partial_ord", "eq", "partial_eq", "hash", "debug", "default")
# "some trait is not implemented / some bound does not hold": what a generated impl with a wrong where-clause produces,
# possibly reported at a span of the user's own tokens (field types keep their spans in the generated code)
TRAIT_CODES = {"E0277", "E0369", "E0204", "E0600", "E0368"}
# name-resolution / namespace errors: a generated token that repeats a user-chosen name is looked up somewhere else
NAME_CODES = {"E0573", "E0747", "E0412", "E0425", "E0423", "E0433", "E0532", "E0574", "E0107", "E0109"}


def strip_dx(code):
    """The program with every derive_ex attribute (both entry points) and every helper attribute blanked out, line
    structure kept: the control for errors reported at user-written tokens."""
    out = list(code)
    i, n = 0, len(code)
    while i < n:
        if code[i] == '"':
            i += 1
            while i < n and code[i] != '"':
                i += 2 if code[i] == "\\" else 1
            i += 1
            continue
        if code[i] == "#":
            j = i + 1
            while j < n and code[j] in " \t":
                j += 1
            if j < n and code[j] == "[":
                depth, k, instr = 0, j, False
                while k < n:
                    ch = code[k]
                    if instr:
                        if ch == "\\":
                            k += 1
                        elif ch == '"':
                            instr = False
                    elif ch == '"':
                        instr = True
                    elif ch in "[({":
                        depth += 1
                    elif ch in "])}":
                        depth -= 1
                        if depth == 0:
                            break
                    k += 1
                inner = code[j + 1:k].strip()
                head = re.match(r"[A-Za-z_:]+", inner)
                name = head.group(0) if head else ""
                if name in DX_ATTR_NAMES or re.match(r"derive\s*\(\s*::derive_ex::Ex\s*\)$", inner):
                    for t in range(i, min(k + 1, n)):
                        if out[t] != "\n":
                            out[t] = " "
                i = k + 1
                continue
        i += 1
    return "".join(out)


def dx_item_ranges(code):
    """Line ranges (1-based, inclusive) of the items that carry a derive_ex attribute: from the attribute to the end of the item."""
    out = []
    for m in re.finditer(r"#\s*\[\s*(?:::derive_ex::derive_ex|derive_ex|derive\s*\(\s*::derive_ex::Ex)\b", code):
        start = code.count("\n", 0, m.start()) + 1
        if out and start <= out[-1][1]:
            continue
        i, n, depth, instr = m.start(), len(code), 0, False
        in_attr = 0
        end = None
        while i < n:
            ch = code[i]
            if instr:
                if ch == "\\":
                    i += 1
                elif ch == '"':
                    instr = False
            elif ch == '"':
                instr = True
            elif ch in "([{":
                depth += 1
            elif ch in ")]}":
                depth -= 1
                if depth == 0 and ch == "}":
                    end = i
                    break
            elif ch == ";" and depth == 0:
                end = i
                break
            i += 1
        if end is None:
            end = n - 1
        out.append((start, code.count("\n", 0, end) + 1))
    return out


def judge_pair(base, trans, mapping, control=None):
    """base / trans: compiled Cases.  Returns None | (symptom, detail) | ('harness', note) | ('need-control', note).
    control: the transformed program without derive_ex (strip_dx), compiled; needed when errors are reported both inside
    and outside derive_ex's output."""
    if base.status != "ok":
        return ("skip", "base program does not compile")
    if trans.status == "compile_fail":
        who, d = C.blame(trans)
        # a transform that also breaks code written by the user / the harness is not judged.  (An earlier version of this
        # comment claimed that a const parameter named like a type breaks the std derives as well - it does not, and the
        # restriction to unsatisfied-trait errors below hid exactly that defect until a red-team agent found it; name
        # resolution errors inside a derive_ex item are judged with the control now too.)  Errors located outside derive_ex's output are
        # attributed with a control: if the same program without any derive_ex attribute shows the same error code at the
        # same line, the transform broke the program itself; an unsatisfied-trait error that the control does not show
        # comes from a generated impl.
        outside = [x for x in trans.diags if x["level"] == "error" and not x["in_derive_ex"] and x["code"] is not None]
        if outside:
            # Attributed to the macro only if: the transform is a pure renaming (under scope shadowing the user's own
            # tokens in bound(..) / key expressions legitimately resolve differently); every such error is an
            # unsatisfied-trait error located inside an item that carries derive_ex; and the control shows no error at
            # all inside those items (the renamed item by itself is fine).
            ranges = dx_item_ranges(trans.code)
            inside = lambda x: x.get("rel") is not None and any(a <= x["rel"] <= b for a, b in ranges)
            # (a name bound / defined twice in generated code - E0416, E0415, E0428, E0124, located in the output or naming an identifier
            # with the generator's reserved `__` prefix - is never the doing of user tokens that were renamed to distinct names;
            # other errors inside the same item are then followers of it)
            dup = [x for x in trans.diags if x["level"] == "error" and x["code"] in ("E0416", "E0415", "E0428", "E0124") and (x["in_derive_ex"] or "`__" in (x["message"] or ""))]
            if SHADOW in trans.code or SHADOW2 in trans.code or not all((x["code"] in (TRAIT_CODES | NAME_CODES) or dup) and inside(x) for x in outside):
                return ("harness", f"{d['code']}: {str(d['message'])[:120]}")
            if control is None:
                return ("need-control", "")
            if control.status == "inconclusive" or any(x["level"] == "error" and inside(x) for x in control.diags):
                return ("harness", f"{d['code']}: {str(d['message'])[:120]}")
            d = (dup or outside)[0]
            return ("compiles-differently", f"{d['code']}: {(d['message'] or '')[:160]}")
        if who == "harness":
            return ("harness", f"{d['code']}: {str(d['message'])[:120]}")
        return ("compiles-differently", f"{d['code']}: {(d['message'] or '')[:160]}")
    if trans.status != "ok":
        return ("harness", "inconclusive")
    lm = log_map(mapping)
    ev_b = [{k: v for k, v in e.items() if k != "c"} for e in base.events]
    ev_t = [{k: v for k, v in e.items() if k != "c"} for e in trans.events]
    sb = apply_map(json.dumps(ev_b, sort_keys=True), lm)
    st = json.dumps(ev_t, sort_keys=True)
    if sb != st:
        # first differing event
        eb = json.loads(sb)
        for x, y in zip(eb, ev_t):
            if x != y:
                return ("computes-differently", f"base {json.dumps(x)[:200]} vs transformed {json.dumps(y)[:200]}")
        return ("computes-differently", f"{len(eb)} vs {len(ev_t)} events")
    return None


def judge_with_control(base, trans, mapping):
    """judge_pair, compiling the derive_ex-free control in isolation when it is needed."""
    r = judge_pair(base, trans, mapping)
    if r and r[0] == "need-control":
        k = C.Case("c0", strip_dx(trans.code))
        C.run_cases([k], "isok", header=HEADER, batch_size=1, runnable=False)
        r = judge_pair(base, trans, mapping, control=k)
    return r


def classify_name(mapping):
    """Signature material: the kind of hostile name per role."""
    out = []
    for k, v in sorted(mapping.items()):
        role = next(r for r, ts in ROLE_TOKENS.items() if k in ts)
        out.append(f"{role}={v}")
    return ",".join(out)


def run(rep, tier, rng):
    idents, lifetimes = harvest_dictionary(rng)
    rep.extra["dictionary_size"] = len(idents) + len(lifetimes)
    rep.extra["dictionary_sample"] = idents[:40] + lifetimes
    bases = progs.base_programs(rng, NBASE[tier])
    cases = []
    plan = []
    for bi, b in enumerate(bases):
        cb = C.Case(f"b{bi}", b["code"], {"base": bi})
        cases.append(cb)
        trs = []
        for ti in range(NTRANS[tier]):
            r = rng.random()
            if r < 0.15:
                kind, mapping = "shadow", {}
                code = shadow_transform(b["code"])
            else:
                if r < 0.75:
                    roles = [rng.choice(list(ROLE_TOKENS))]
                else:
                    roles = rng.sample(list(ROLE_TOKENS), rng.randint(2, 6))
                mapping = pick_names(rng, b["code"], roles, idents, lifetimes)
                if not mapping:
                    continue
                kind = "rename"
                code = apply_map(b["code"], mapping)
                if rng.random() < 0.1:
                    kind = "rename+shadow"
                    code = shadow_transform(code)
            ct = C.Case(f"t{bi}_{ti}", code, {"base": bi, "kind": kind, "mapping": mapping})
            cases.append(ct)
            trs.append(ct)
        plan.append((cb, trs, b))
    # systematic sweep: every dictionary name in every role, on every hand-picked rich base program that has that role
    rich = progs.rich_bases()
    rep.count("rich_base_programs", len(rich))
    sweep = []

    def has(tok, code):
        return re.search((re.escape(tok) + r"\b") if tok.startswith("'") else (r"(?<![A-Za-z0-9_#'])" + re.escape(tok) + r"\b"), code)
    for ri, b in enumerate(rich):
        bi = len(bases)
        bases.append(b)
        cb = C.Case(f"r{ri}", b["code"], {"base": bi})
        cases.append(cb)
        trs = []
        # the prelude-shadowing scope on every rich base
        ct = C.Case(f"ws{ri}", shadow_transform(b["code"]), {"base": bi, "kind": "shadow", "mapping": {}})
        sweep.append(ct)
        trs.append(ct)
        for role in ROLE_TOKENS:
            toks = [t for t in ROLE_TOKENS[role] if has(t, b["code"])]
            if not toks:
                continue
            names = lifetimes if role == "lifetime" else [n for n in idents + PRELUDE + RAW_OK if n not in HARNESS]
            if role == "type":
                names = [n for n in names if not n.startswith("r#")]
            if tier == "quick" and role in ("field", "variant"):
                # bindings derived from field / variant names carry a reserved prefix: thinner sweep - but the names the
                # property lists, and the short ones the expander itself uses, are tried on every base (a position-based
                # thinning alone made the sweep depend on the order of the harvested dictionary)
                always = [n for n in names if n in CLASSIC or len(n) <= 2]
                names = always + [n for n in names[ri % 3::3] if n not in always]
            for k, name in enumerate(names):
                mapping = {toks[k % len(toks)]: name}
                ct = C.Case(f"w{len(sweep)}", apply_map(b["code"], mapping), {"base": bi, "kind": "rename", "mapping": mapping})
                sweep.append(ct)
                trs.append(ct)
        # two fields renamed at once to names that differ only in underscores / rawness (bindings derived from field names must
        # stay distinct): fixed pairs, on every rich base with two named fields
        if has("f0", b["code"]) and has("f1", b["code"]):
            for n0, n1 in FIELD_PAIRS:
                mapping = {"f0": n0, "f1": n1}
                ct = C.Case(f"w{len(sweep)}", apply_map(b["code"], mapping), {"base": bi, "kind": "rename", "mapping": mapping})
                sweep.append(ct)
                trs.append(ct)
                rep.count("field_pair_renamings")
        plan.append((cb, trs, b))
    cases += sweep
    rep.count("sweep_pairs", len(sweep))
    # two transforms that rename nothing, on every base program: the second hostile scope, and macro forwarding
    extra = []
    for cb, trs, b in plan:
        k = cb.name
        s2 = C.Case(f"x2{k}", SHADOW2 + cb.code, {"base": cb.meta["base"], "kind": "shadow2"})
        extra.append((cb, s2, None, b))
        m1, m2 = macro_forward(cb.code, True), macro_forward(cb.code, False)
        if m1 and m2:
            c1 = C.Case(f"xm{k}", m1, {"base": cb.meta["base"], "kind": "macrofwd"})
            c2 = C.Case(f"xk{k}", m2, {"base": cb.meta["base"], "kind": "macrofwd-control"})
            extra.append((cb, c1, c2, b))
    cases += [x for _, t, c, _ in extra for x in (t, c) if x is not None]
    _, notes = C.run_cases(cases, "c13", header=HEADER, batch_size=40)
    for n in notes:
        rep.inconcl(n)
    sigs = {}
    # controls (the transformed program without any derive_ex attribute) for errors reported at user-written tokens
    need = [ct for cb, trs, b in plan if cb.status == "ok" for ct in trs
            if ct.status == "compile_fail" and (judge_pair(cb, ct, ct.meta["mapping"]) or ("",))[0] == "need-control"]
    ctl = {ct.name: C.Case("k" + ct.name, strip_dx(ct.code), {}) for ct in need}
    if ctl:
        _, notes = C.run_cases(list(ctl.values()), "c13k", header=HEADER, batch_size=40, runnable=False)
        for n in notes:
            rep.inconcl(n)
    rep.count("controls_without_derive_ex_compiled", len(ctl))
    for cb, trs, b in plan:
        if cb.status != "ok":
            rep.count("base_programs_rejected")
            continue
        rep.count("base_programs")
        for ct in trs:
            if ct.status == "inconclusive":
                continue
            r = judge_pair(cb, ct, ct.meta["mapping"], control=ctl.get(ct.name))
            if r and r[0] == "harness":
                rep.count("transform_broke_the_harness_itself")
                continue
            rep.evaluations += 1
            rep.count("pairs_" + ct.meta["kind"])
            rep.nontrivial.add((b["src"], ct.meta["kind"], classify_name(ct.meta["mapping"])))
            if r:
                m = ct.meta["mapping"]
                if ct.meta["kind"] == "shadow":
                    culprit = "scope"
                else:
                    culprit = classify_name(m)
                sigs.setdefault((r[0], b["src"], culprit, r[1][:60]), []).append((cb, ct, r))
    # minimise each failing renaming to the single responsible role where possible, then confirm in isolation
    reported = {}
    for key, lst in list(sigs.items())[:60]:
        cb, ct, r = lst[0]
        m = ct.meta["mapping"]
        shadow = "shadow" in ct.meta["kind"]
        # smallest transform that still shows the same symptom: the scope alone, one renaming alone, one renaming + scope, all
        cands = ([({}, True)] if shadow else []) + [({k: m[k]}, False) for k in m] + ([({k: m[k]}, True) for k in m] if shadow else []) + [(m, shadow)]
        best, best_shadow, r2 = None, None, None
        for mm, sh in cands:
            code = apply_map(cb.code, mm)
            if sh:
                code = shadow_transform(code)
            c1 = C.compile_single(code, header=HEADER)
            r1 = judge_with_control(cb, c1, mm)
            if r1 and r1[0] == r[0]:
                best, best_shadow, r2 = mm, sh, r1
                break
        if best is None:
            rep.inconcl(f"did not reproduce in isolation: {key}")
            continue
        traits = "+".join(sorted(set(bases[cb.meta["base"]]["traits"])))[:60]
        what_t = (classify_name(best) if best else "") + ("+scope-shadowing" if best_shadow else "")
        sig = f"C13|{r2[0]}|{what_t}|{(r2[1].split(':')[0])}"
        if sig in reported:
            continue
        reported[sig] = True
        rep.violation(sig, f"{r2[0]} under {what_t}: {r2[1]} [{bases[cb.meta['base']]['src']} program deriving {traits}]",
                      {"base_code": cb.code, "mapping": best, "kind": "rename+shadow" if best_shadow else "rename"})
    # ---- the transforms that rename nothing ----
    xs = {}
    for cb, ct, ck, b in extra:
        r = judge_scope(cb, ct, ck)
        if r and r[0] in ("skip",):
            continue
        if r and r[0] == "harness":
            rep.count("transform_broke_the_harness_itself")
            continue
        rep.evaluations += 1
        rep.count("pairs_" + ct.meta["kind"])
        rep.nontrivial.add((b["src"], ct.meta["kind"], ""))
        if r:
            xs.setdefault((ct.meta["kind"], r[0], r[1].split(":")[0]), []).append((cb, ct, ck, b, r))
    for (kind, sym, code_), lst in list(xs.items())[:12]:
        cb, ct, ck, b, r = lst[0]
        again = C.compile_single(ct.code, header=HEADER)
        ck2 = C.compile_single(ck.code, header=HEADER) if ck is not None else None
        r2 = judge_scope(cb, again, ck2)
        if not r2 or r2[0] != sym:
            rep.inconcl(f"did not reproduce in isolation: {kind} {sym}")
            continue
        traits = "+".join(sorted(set(b["traits"])))[:60]
        what_t = {"shadow2": "scope with same-named traits that have methods", "macrofwd": "item passed through a macro_rules! macro"}[kind]
        rep.violation(f"C13|{sym}|{kind}|{code_}", f"{sym} under {what_t}: {r2[1]} [{b['src']} program deriving {traits}; {len(lst)} programs]",
                      {"base_code": cb.code, "mapping": {}, "kind": kind})
    # ---- #![no_std]: metadata-only ----
    ns_cases, sd_cases = [], []
    for i, (tl, item) in enumerate(NO_STD_ITEMS):
        for entry in ("attr", "derive"):
            head = f"#[::derive_ex::derive_ex({tl})]\n" if entry == "attr" else f"#[derive(::derive_ex::Ex)]\n#[derive_ex({tl})]\n"
            ns_cases.append(C.Case(f"n{i}{entry[0]}", head + item, {"i": i}))
            sd_cases.append(C.Case(f"n{i}{entry[0]}", head + item, {"i": i}))
    _, n1 = C.run_cases(sd_cases, "c13s", header=HEADER, batch_size=16, runnable=False)
    _, n2 = C.run_cases(ns_cases, "c13n", header="#![no_std]\n" + HEADER, batch_size=16, runnable=False)
    for n in n1 + n2:
        rep.inconcl(n)
    for a, b in zip(sd_cases, ns_cases):
        if "inconclusive" in (a.status, b.status):
            continue
        rep.evaluations += 1
        rep.count("pairs_no_std")
        rep.nontrivial.add(("no_std", a.code[:60]))
        if a.status == "ok" and b.status != "ok":
            d = next(d for d in b.diags if d["level"] == "error")
            rep.violation(f"C13|no_std|{d['code']}|{(d['message'] or '')[:40]}", f"compiles with std, not under #![no_std]: {d['message'][:160]}\n{b.code}",
                          {"code": b.code, "no_std": True})
    t = next((ct for cb, trs, b in plan for ct in trs if ct.status == "ok" and ct.meta["mapping"]), None)
    if t:
        rep.sample({"transform": t.meta["kind"], "mapping": t.meta["mapping"], "transformed_source": t.code[:600]})
    t = next((ct for cb, trs, b in plan for ct in trs if ct.status == "ok" and ct.meta["kind"] == "shadow"), None)
    if t:
        rep.sample({"transform": "shadow", "source_head": t.code[:300]})
    # canary: a renaming applied to the program but not to the log comparison must be flagged
    for cb, trs, b in plan:
        t = next((ct for ct in trs if ct.status == "ok" and cb.status == "ok" and ct.meta["mapping"]
                  and json.dumps([{k: v for k, v in e.items() if k != "c"} for e in cb.events], sort_keys=True) !=
                  apply_map(json.dumps([{k: v for k, v in e.items() if k != "c"} for e in cb.events], sort_keys=True), log_map(ct.meta["mapping"]))), None)
        if t:
            rep.canary = judge_pair(cb, t, {}) is not None and judge_pair(cb, t, t.meta["mapping"]) is None
            break
    rep.rule = ("base programs from the generators of C01/C06 (comparison traits + Hash with helper attributes), C07 (Clone), C08 "
                "(operators), C10 (Debug), C11 (Default), C12 (all eight traits next to the std derives), C18 (Deref); transforms: "
                "consistent renaming of one role (type, field, variant, type parameter, const parameter, lifetime) or several jointly to "
                "names from a hostile dictionary = every identifier/lifetime the real expander introduces (harvested from its output "
                "over the repository's own items) + prelude/core names + keywords as raw identifiers; a scope that glob-imports dummy "
                "items named like the prelude; both. Oracle: base compiles <=> transformed compiles (errors located outside derive_ex's "
                "output are harness breakage and not judged) and the event logs are equal after applying the renaming to the base log. "
                "#![no_std] metadata-only pairs on a core-only corpus. evaluations = (base, transformed) pairs judged; "
                "distinct_nontrivial = distinct (generator, transform, names).")
    rep.assumptions = ["names starting with `__` are reserved for the generator and never used", "harness-local identifiers are excluded from the dictionary"]


def replay(rep, path):
    j = json.load(open(path))["replay"]
    if j.get("no_std"):
        c = C.Case("c0", j["code"])
        C.run_cases([c], "iso", header="#![no_std]\n" + HEADER, batch_size=1, runnable=False)
        bad = c.status != "ok"
    else:
        cb = C.compile_single(j["base_code"], header=HEADER)
        if j["kind"] in ("shadow2", "macrofwd"):
            ct = C.compile_single(SHADOW2 + j["base_code"] if j["kind"] == "shadow2" else macro_forward(j["base_code"], True), header=HEADER)
            ck = C.compile_single(macro_forward(j["base_code"], False), header=HEADER) if j["kind"] == "macrofwd" else None
            r = judge_scope(cb, ct, ck)
            if r and r[0] not in ("harness", "skip"):
                print(f"VIOLATION property=C13 replay={path}")
                return 1
            print("replay: no violation")
            return 0
        code = apply_map(j["base_code"], j["mapping"])
        if "shadow" in j["kind"]:
            code = shadow_transform(code)
        ct = C.compile_single(code, header=HEADER)
        r = judge_with_control(cb, ct, j["mapping"])
        bad = bool(r) and r[0] not in ("harness", "skip")
    if bad:
        print(f"VIOLATION property=C13 replay={path}")
        return 1
    print("replay: no violation")
    return 0
