"""CLI: ./check <ID> [--tier quick|thorough] [--replay path]"""
import importlib
import os
import sys
import traceback

sys.path.insert(0, os.path.dirname(os.path.dirname(os.path.abspath(__file__))))
from dx import common as C  # noqa: E402


def main():
    args = sys.argv[1:]
    if not args:
        print("usage: check <ID> [--tier quick|thorough] [--replay <path>]")
        return 64
    pid = args[0].upper()
    tier = os.environ.get("VERIF_TIER", "quick")
    replay = None
    i = 1
    while i < len(args):
        if args[i] == "--tier":
            tier = args[i + 1]
            i += 2
        elif args[i] == "--replay":
            replay = args[i + 1]
            i += 2
        else:
            i += 1
    if tier not in ("quick", "thorough"):
        tier = "quick"
    try:
        seed = int(os.environ.get("VERIF_SEED", "0"))
    except ValueError:
        seed = 0
    mod = importlib.import_module(f"dx.p_{pid.lower()}")
    rep = C.Report(pid, tier, seed)
    try:
        if replay:
            return mod.replay(rep, replay)
        mod.run(rep, tier, C.rng_for(pid, seed))
    except C.Inconclusive as e:
        rep.inconcl(e)
        print(f"INCONCLUSIVE property={pid} harness: {str(e)[:2000]}")
        rep.finish(harness_failed=True)
        return 2
    except Exception:
        # a crash of the harness is never a verdict about the code
        traceback.print_exc()
        print(f"INCONCLUSIVE property={pid} harness crashed (see traceback)")
        rep.inconcl("harness crash")
        rep.finish(harness_failed=True)
        return 2
    return rep.finish(floor=getattr(mod, "FLOOR", {}).get(tier, 1))


if __name__ == "__main__":
    sys.exit(main())
