"""C17 — derive_ex(Eq) is refused unless every compared component is Eq (compile pipeline)."""
import itertools
import json

from . import common as C

FLOOR = {"quick": 1500, "thorough": 8000}
NRANDOM = {"quick": 2000, "thorough": 10000}
HEADER = "#![allow(warnings)]"

TYPES = {"V": ("::dxrt::V", True), "PE": ("::dxrt::PE", False), "P": ("::dxrt::P", False), "f64": ("f64", False), "u8": ("u8", True),
         # one key text (`$.0`, `$.1`) yields an Eq value on one of these and a PartialEq-only value on the other
         "TupVP": ("(::dxrt::V, ::dxrt::PE)", False), "TupPV": ("(::dxrt::PE, ::dxrt::V)", False)}
# (attribute text, kind, key-is-Eq)
ATTRS = [
    ("", "none", None),
    ("#[eq(ignore)]", "ignore", None),
    ("#[ord(ignore)]", "ignore", None),
    ("#[eq(key = $KEQ)]", "key", True),
    ("#[eq(key = $KNE)]", "key", False),
    ("#[ord(key = $KEQ)]", "key", True),
    ("#[ord(key = $KNE)]", "key", False),
    ("#[eq(by = $BYEQ)]", "by", None),
    ("#[ord(by = $BYORD)]", "by", None),
    ("#[eq(key = $KNE)] #[ord(key = $KEQ)]", "key", False),     # eq is consulted before ord
    ("#[eq(key = $KEQ)] #[ord(key = $KNE)]", "key", True),
    ("#[eq(by = $BYEQ)] #[ord(key = $KNE)]", "by", None),
    # keys that do not mention the field at all: the key still stands for the field
    ("#[eq(key = 0.5f32)]", "key", False),
    ("#[ord(key = ::dxrt::PE(1))]", "key", False),
    ("#[eq(key = 7u8)]", "key", True),
    ("#[ord(key = (1u8, \"k\"))]", "key", True),
    ("#[eq(key = ::dxrt::PE(1))] #[ord(key = $KEQ)]", "key", False),
]


def _pairs():
    """Every pair of an eq(..) and an ord(..) argument on one field; which one decides follows the documented source
    selection (cmpmodel): eq before ord, ignore / by exempt the field, a key stands for the field."""
    from . import cmpmodel as M
    out = []
    have = {a[0] for a in ATTRS}
    for eo in ("ignore", "key", "by"):
        for oo in ("ignore", "key", "by"):
            combo = (oo, "-", eo, "-", "-")
            if M.status("Eq", combo) != "accept" or M.status("PartialEq", combo) != "accept":
                continue
            kind, attr = M.source("Eq", combo)
            for ek in (True, False):
                for ok in (True, False):
                    if (eo != "key" and not ek) or (oo != "key" and not ok):
                        continue
                    et = {"ignore": "ignore", "by": "by = $BYEQ", "key": "key = " + ("$KEQ" if ek else "$KNE")}[eo]
                    ot = {"ignore": "ignore", "by": "by = $BYORD", "key": "key = " + ("$KEQ" if ok else "$KNE")}[oo]
                    for text in (f"#[eq({et})] #[ord({ot})]", f"#[ord({ot})] #[eq({et})]"):
                        if text in have:
                            continue
                        have.add(text)
                        if kind == "ignored":
                            out.append((text, "ignore", None))
                        elif kind == "by":
                            out.append((text, "by", None))
                        else:
                            out.append((text, "key", ek if attr == "eq" else ok))
    return out


ATTRS = ATTRS + _pairs()


def subst(attr, ty):
    if ty in ("f64", "u8"):
        keq, kne = "($ as i64)", "($ as f64)"
        byeq, byord = "|a, b| (*a as i64) == (*b as i64)", "|a, b| (*a as i64).cmp(&(*b as i64))"
    elif ty in ("TupVP", "TupPV"):
        e, n = ("0", "1") if ty == "TupVP" else ("1", "0")
        keq, kne = f"$.{e}", f"$.{n}"
        byeq, byord = f"|a, b| a.{e} == b.{e}", f"|a, b| a.{e}.cmp(&b.{e})"
    else:
        keq, kne = "$.0", "::dxrt::PE($.0)"
        byeq, byord = "|a, b| a.0 == b.0", "|a, b| a.0.cmp(&b.0)"
    return attr.replace("$KEQ", keq).replace("$KNE", kne).replace("$BYEQ", byeq).replace("$BYORD", byord)


def field_refuses(f):
    ty, (attr, kind, keyeq) = f
    if kind in ("ignore", "by"):
        return False
    if kind == "key":
        return not keyeq
    return not TYPES[ty][1]


def render(spec, with_dx=True):
    """spec: kind, variants [(style, [(ty, attr)])], entry"""
    tl = "Eq, PartialEq"
    head = (f"#[::derive_ex::derive_ex({tl})]\n" if spec["entry"] == "attr" else f"#[derive(::derive_ex::Ex)]\n#[derive_ex({tl})]\n") if with_dx else ""
    bodies = []
    for style, fs in spec["variants"]:
        parts = []
        for i, (ty, a) in enumerate(fs):
            at = (subst(a[0], ty) + " ") if with_dx else ""
            parts.append(f"{at}f{i}: {TYPES[ty][0]}" if style == "named" else f"{at}{TYPES[ty][0]}")
        bodies.append("{ " + ", ".join(parts) + " }" if style == "named" else ("(" + ", ".join(parts) + ")" if style == "tuple" else ""))
    if spec["kind"] == "struct":
        st = spec["variants"][0][0]
        item = f"pub struct Ty {bodies[0]}" if st == "named" else f"pub struct Ty{bodies[0]};"
    else:
        item = "pub enum Ty { " + ", ".join(f"V{i}{b}" for i, b in enumerate(bodies)) + " }"
    return head + item


def control(spec):
    # the user-written pieces (field types, key/by expressions) in hand-written context
    out = [render(spec, with_dx=False), "pub fn run() {"]
    k = 0
    for style, fs in spec["variants"]:
        for (ty, a) in fs:
            t = TYPES[ty][0]
            text = subst(a[0], ty)
            import re
            for m in re.finditer(r"key = ([^\]]+?)\)\]", text):
                out.append(f"fn k{k}(x: &{t}) {{ let _ = {m.group(1).replace('$', '(*x)')}; }}")
                k += 1
            for m in re.finditer(r"by = ([^\]]+?)\)\]", text):
                out.append(f"fn b{k}(x: &{t}, y: &{t}) {{ fn call<R>(f: impl Fn(&{t}, &{t}) -> R, x: &{t}, y: &{t}) -> R {{ f(x, y) }} let _ = call({m.group(1)}, x, y); }}")
                k += 1
    out.append("}")
    return "\n".join(out)


GENERIC = [
    # (code, expect_compiles, probes [(type args, expected Eq bit)])
    ("#[::derive_ex::derive_ex(Eq, PartialEq)] pub struct Ty<T>(T);", True, [("::dxrt::V", True), ("::dxrt::PE", False)]),
    ("#[::derive_ex::derive_ex(Eq(bound()), PartialEq)] pub struct Ty<T>(T);", False, []),
    ("#[::derive_ex::derive_ex(Eq(bound()), PartialEq)] pub struct Ty<T>(#[eq(ignore)] T);", True, [("::dxrt::V", True), ("::dxrt::PE", True)]),
    ("#[::derive_ex::derive_ex(Eq(bound()), PartialEq(bound()))] pub struct Ty<T>(::core::marker::PhantomData<T>);", True, [("::dxrt::PE", True), ("::dxrt::No", True)]),
    ("#[::derive_ex::derive_ex(Eq(bound(T: ::core::cmp::Eq)), PartialEq)] pub struct Ty<T>(::std::vec::Vec<T>);", True, [("::dxrt::V", True), ("::dxrt::PE", False)]),
    ("#[::derive_ex::derive_ex(Eq(bound(T)), PartialEq)] pub struct Ty<T>(::core::option::Option<T>);", True, [("::dxrt::V", True), ("::dxrt::PE", False)]),
    ("#[::derive_ex::derive_ex(Eq, PartialEq)] pub enum Ty<T, U> { A(T), B { #[eq(ignore)] u: U }, C }", True,
     [("::dxrt::V, ::dxrt::PE", True), ("::dxrt::PE, ::dxrt::V", False)]),
    ("#[::derive_ex::derive_ex(Eq, PartialEq)] pub enum Ty<T, U> { A(T), B { #[eq(key = 0u8)] u: U }, C }", True,
     [("::dxrt::V, ::dxrt::No", True), ("::dxrt::PE, ::dxrt::V", False)]),
    ("#[::derive_ex::derive_ex(Eq, PartialEq)] pub struct Ty<T>(#[eq(key = ::dxrt::PE(0))] T);", False, []),
    ("#[derive(::derive_ex::Ex)] #[derive_ex(Eq, PartialEq)] pub struct Ty<T>(#[ord(by = |_, _| ::core::cmp::Ordering::Equal)] T, u8);", True,
     [("::dxrt::No", True), ("f64", True)]),
    ("#[derive(::derive_ex::Ex)] #[derive_ex(Eq, PartialEq)] pub struct Ty<T>(T, f64);", False, []),
]

def generic_family():
    """Explicit bound(...) at every level of a generic type: Eq must still be refused unless the bounds make every compared
    field type Eq.  Returns (code, expect_compiles, probes)."""
    E = "::core::cmp::"
    weak = [f"T: {E}PartialEq", f"T: {E}PartialOrd", f"T: ::core::clone::Clone + {E}PartialEq"]
    strong = [f"T: {E}Eq", f"T: {E}Ord"]
    ftys = ["T", "::core::option::Option<T>", "::std::vec::Vec<T>"]
    out = []
    k = 0
    for pos in ("type.this", "type.common", "type.eq", "type.ord", "field.this", "field.common", "field.eq", "field.ord", "variant.this", "variant.eq"):
        for b, is_strong in [(x, False) for x in weak] + [(x, True) for x in strong]:
            for dots in (False, True):
                k += 1
                f = ftys[k % 3]
                bb = b + (", .." if dots else "")
                tl, tattr, vattr, fattr = "Eq, PartialEq", "", "", ""
                if pos == "type.this":
                    tl = f"Eq(bound({bb})), PartialEq"
                elif pos == "type.common":
                    tl = f"Eq, PartialEq, bound({bb})"
                elif pos in ("type.eq", "type.ord"):
                    tattr = f"#[{pos[5:]}(bound({bb}))] "
                elif pos == "field.this":
                    fattr = f"#[derive_ex(Eq(bound({bb})))] "
                elif pos == "field.common":
                    fattr = f"#[derive_ex(Eq, bound({bb}))] "
                elif pos in ("field.eq", "field.ord"):
                    fattr = f"#[{pos[6:]}(bound({bb}))] "
                elif pos == "variant.this":
                    vattr = f"#[derive_ex(Eq(bound({bb})))] "
                else:
                    vattr = f"#[eq(bound({bb}))] "
                head = f"#[::derive_ex::derive_ex({tl})]\n" if k % 2 else f"#[derive(::derive_ex::Ex)]\n#[derive_ex({tl})]\n"
                if pos.startswith("variant"):
                    item = f"{tattr}pub enum Ty<T> {{ A, {vattr}B(u8, {fattr}{f}) }}"
                elif k % 4 < 2:
                    item = f"{tattr}pub struct Ty<T>(u8, {fattr}{f});"
                else:
                    item = f"{tattr}pub struct Ty<T> {{ f0: {fattr}{f}, f1: u8 }}".replace(f"f0: {fattr}", f"{fattr}f0: ")
                ok = is_strong or dots
                out.append((head + item, ok, [("::dxrt::V", True), ("::dxrt::PE", False)] if ok else []))
    return out


def lifetime_family():
    """Items with lifetime parameters whose compared field types mention only the lifetime: nothing about the item is generic
    over a type, so Eq must be refused exactly when the referent is not Eq."""
    non_eq = ["&'a f32", "&'a f64", "::core::option::Option<&'a f32>", "(&'a u8, &'a f64)", "&'a [f64]", "&'a mut f32",
              "&'a ::dxrt::PE", "::std::boxed::Box<&'a ::dxrt::P>"]
    is_eq = ["&'a u8", "&'a str", "::core::option::Option<&'a ::dxrt::V>", "&'a mut u8", "&'a [u8]", "::core::marker::PhantomData<&'a f32>"]
    out = []
    k = 0
    for tys, ok in ((non_eq, False), (is_eq, True)):
        for t in tys:
            for shape in ("tuple", "named", "enum", "two"):
                k += 1
                head = "#[::derive_ex::derive_ex(Eq, PartialEq)]\n" if k % 2 else "#[derive(::derive_ex::Ex)]\n#[derive_ex(PartialEq, Eq)]\n"
                if shape == "tuple":
                    item = f"pub struct Ty<'a>({t});"
                elif shape == "named":
                    item = f"pub struct Ty<'a> {{ n: u8, w: {t} }}"
                elif shape == "enum":
                    item = f"pub enum Ty<'a> {{ A, B({t}), C {{ s: &'a str }} }}"
                else:
                    item = f"pub struct Ty<'a, 'b: 'a>(&'b u8, {t});"
                args = "'static, 'static" if shape == "two" else "'static"
                out.append((head + item, ok, [(args, True)] if ok else []))
    # the non-Eq field exempted: accepted again
    out.append(("#[::derive_ex::derive_ex(Eq, PartialEq)] pub struct Ty<'a>(#[eq(ignore)] &'a f32, &'a str);", True, [("'static", True)]))
    out.append(("#[::derive_ex::derive_ex(Eq, PartialEq)] pub struct Ty<'a>(#[eq(key = $.to_bits())] &'a f32, &'a str);", True, [("'static", True)]))
    out.append(("#[::derive_ex::derive_ex(Eq, PartialEq)] pub struct Ty<'a, T>(&'a T, &'a f64);", False, []))
    out.append(("#[::derive_ex::derive_ex(Eq, PartialEq)] pub struct Ty<'a, T>(&'a T, ::core::option::Option<&'a u8>);", True,
                [("'static, ::dxrt::V", True), ("'static, ::dxrt::PE", False)]))
    return out


def gen_spec(rng):
    kind = rng.choice(["struct", "enum"])
    nv = 1 if kind == "struct" else rng.randint(1, 3)
    vs = []
    for _ in range(nv):
        style = rng.choice(["named", "tuple"] if kind == "struct" else ["named", "tuple", "unit"])
        nf = 0 if style == "unit" else rng.randint(1, 4)
        fs = [(rng.choice(["V", "V", "PE", "P", "f64", "u8", "TupVP", "TupPV"]), rng.choice(ATTRS)) for _ in range(nf)]
        vs.append((style, fs))
    return {"kind": kind, "variants": vs, "entry": rng.choice(["attr", "derive"])}


def expect_refuse(spec):
    return any(field_refuses(f) for _, fs in spec["variants"] for f in fs)


def judge(c, refuse):
    """Returns None or (symptom, detail)."""
    errs = [d for d in c.diags if d["level"] == "error"]
    if refuse:
        if c.status == "ok":
            return ("eq-accepted-with-non-eq-component", "compiles")
        if not any(d["code"] == "E0277" and "Eq" in (d["message"] or "") for d in errs):
            return ("refused-for-another-reason", "; ".join(f"{d['code']}: {(d['message'] or '')[:80]}" for d in errs[:3]))
        return None
    if c.status != "ok":
        return ("eq-refused-although-all-components-are-eq", "; ".join(f"{d['code']}: {(d['message'] or '')[:80]}" for d in errs[:3]))
    return None


def run(rep, tier, rng):
    specs = []
    k = 0
    # core: every (type x attribute) alone next to an Eq field, struct and enum
    for ty in TYPES:
        for a in ATTRS:
            for kind in ("struct", "enum"):
                k += 1
                vs = [("named" if k % 2 else "tuple", [("V", ATTRS[0]), (ty, a)])]
                if kind == "enum":
                    vs = [("unit", [])] + vs
                specs.append({"kind": kind, "variants": vs, "entry": "attr" if k % 3 else "derive"})
    # one key text on two fields: it yields an Eq value on one field and a PartialEq-only value on the other
    # (`$.0` on (V, PE) and on (PE, V)); both orders, same variant and different variants, eq and ord helpers
    for eq_ai, ne_ai in ((3, 4), (5, 6)):
        for eq_ty, ne_ty in (("TupVP", "TupPV"), ("TupPV", "TupVP")):
            for eq_first in (True, False):
                for kind in ("struct", "enum", "enum2"):
                    k += 1
                    fe, fn = (eq_ty, ATTRS[eq_ai]), (ne_ty, ATTRS[ne_ai])
                    f1, f2 = (fe, fn) if eq_first else (fn, fe)
                    if kind == "enum2":
                        vs = [("tuple", [f1]), ("named", [("V", ATTRS[0]), f2])]
                    else:
                        vs = [("named" if k % 2 else "tuple", [f1, ("u8", ATTRS[0]), f2])]
                        if kind == "enum":
                            vs = [("unit", [])] + vs
                    specs.append({"kind": "struct" if kind == "struct" else "enum", "variants": vs, "entry": "attr" if k % 3 else "derive"})
    n0 = len(specs)
    while len(specs) < n0 + NRANDOM[tier]:
        specs.append(gen_spec(rng))
    cases = []
    for i, s in enumerate(specs):
        cases.append(C.Case(f"c{i}", render(s), {"spec": s, "refuse": expect_refuse(s)}))
        cases.append(C.Case(f"k{i}", control(s), {"control": True}))
    # expected-accept and expected-refuse cases go to different batches (fewer fix-point iterations)
    acc = [c for c in cases if c.meta.get("control") or not c.meta["refuse"]]
    ref = [c for c in cases if not c.meta.get("control") and c.meta["refuse"]]
    _, n1 = C.run_cases(acc, "c17a", header=HEADER, batch_size=100, runnable=False)
    _, n2 = C.run_cases(ref, "c17r", header=HEADER, batch_size=100, runnable=False)
    for n in n1 + n2:
        rep.inconcl(n)
    by = {c.name: c for c in cases}
    sigs = {}
    for i, s in enumerate(specs):
        c, kc = by[f"c{i}"], by[f"k{i}"]
        if "inconclusive" in (c.status, kc.status):
            continue
        if kc.status != "ok":
            rep.inconcl(f"control does not compile: {[d['message'] for d in kc.diags][:2]} :: {kc.code[:200]}")
            continue
        rep.evaluations += 1
        rep.count("expected_refusals" if c.meta["refuse"] else "expected_acceptances")
        rep.nontrivial.add((s["kind"], tuple(sorted({(ty, a[0]) for _, fs in s["variants"] for ty, a in fs if a[0] or not TYPES[ty][1]}))))
        r = judge(c, c.meta["refuse"])
        if r:
            feat = sorted({f"{ty}:{a[1]}:{a[2]}" for _, fs in s["variants"] for ty, a in fs if field_refuses((ty, a)) or a[1] != "none"})
            sigs.setdefault(f"C17|{r[0]}|{','.join(feat)[:100]}", []).append((c, f"{r[0]} ({r[1]}):\n{c.code[:400]}"))
    # generic cases: compile verdict + trait-solver probes at run time
    gcases = []
    fam = generic_family()
    rep.count("generic_bound_family", len(fam))
    lif = lifetime_family()
    rep.count("lifetime_only_field_family", len(lif))
    for j, (code, ok, probes) in enumerate(GENERIC + fam + lif):
        body = "\n".join(f'::dxrt::ev!("probe", "i" => {pi}, "eq" => ::dxrt::probe_impl!(Ty<{args}>: ::core::cmp::Eq));' for pi, (args, _) in enumerate(probes))
        gcases.append(C.Case(f"g{j}", code + "\npub fn run() {\n" + body + "\n}", {"ok": ok, "probes": probes}))
    _, n3 = C.run_cases([c for c in gcases if c.meta["ok"]], "c17g", header=HEADER, batch_size=40)
    _, n4 = C.run_cases([c for c in gcases if not c.meta["ok"]], "c17h", header=HEADER, batch_size=60, runnable=False)
    n3 = n3 + n4
    for n in n3:
        rep.inconcl(n)
    for c in gcases:
        if c.status == "inconclusive":
            continue
        rep.evaluations += 1
        rep.count("generic_cases")
        rep.nontrivial.add(("generic", c.code[:80]))
        r = judge(c, not c.meta["ok"])
        if r:
            sigs.setdefault(f"C17|generic:{r[0]}|{c.name}", []).append((c, f"{r[0]} ({r[1]}):\n{c.code[:300]}"))
            continue
        for e in c.events:
            if e.get("k") == "probe":
                rep.count("probe_bits")
                args, want = c.meta["probes"][e["i"]]
                if e["eq"] != want:
                    sigs.setdefault(f"C17|generic:probe|{c.name}:{e['i']}", []).append(
                        (c, f"Ty<{args}>: Eq is {e['eq']}, expected {want}:\n{c.code[:300]}"))
    for sig, lst in list(sigs.items())[:25]:
        c, what = lst[0]
        runnable = c.name.startswith("g")
        again = C.compile_single(c.code, header=HEADER, runnable=runnable)
        conf = judge(again, (not c.meta["ok"]) if runnable else c.meta["refuse"]) is not None or "probe" in sig
        if conf:
            rep.violation(sig, what + f" [{len(lst)} cases]", {"code": c.code, "refuse": (not c.meta["ok"]) if runnable else c.meta["refuse"], "runnable": runnable})
        else:
            rep.inconcl(f"did not reproduce in isolation: {sig}")
    rep.sample({"source": cases[12].code, "expected": "refuse" if cases[12].meta["refuse"] else "accept", "status": cases[12].status,
                "diags": [f"{d['code']}: {d['message'][:80]}" for d in cases[12].diags[:2]]})
    rep.sample({"source": cases[40].code, "expected": "refuse" if cases[40].meta["refuse"] else "accept", "status": cases[40].status})
    # canary: judging a refused case as if acceptance were expected must be flagged
    r0 = next(c for c in ref if c.status == "compile_fail")
    rep.canary = judge(r0, False) is not None and judge(r0, True) is None
    rep.rule = ("structs/enums mixing Eq (V, u8) and PartialEq-only (PE, P, f64) field types, each field with one of {no attribute, "
                "eq/ord(ignore), eq/ord(key yielding an Eq type), eq/ord(key yielding a non-Eq type), eq/ord(by = ..), eq+ord key "
                "pairs}; #[derive_ex(Eq, PartialEq)] through both entry points, compiled metadata-only with the real proc-macro. "
                "Oracle: rustc refuses with E0277 `...: Eq` iff some field that takes part in equality (or its key) is not Eq; "
                "controls compile the user-written pieces without derive_ex. Tuple field types (V, PE) / (PE, V) put one key text "
                "(`$.0`) on an Eq and on a non-Eq component. Generic cases add bound()/bound(T) variants, a family with explicit "
                "bound(B[, ..]) at every level (type per-trait / shared / #[eq] / #[ord], variant, field) for B weaker than Eq "
                "(refused unless `..`) and B implying Eq, a family of items with lifetime parameters whose field types mention only the "
                "lifetime (&'a f32 .. refused, &'a u8 .. accepted), keys that do not mention `$`, and probe_impl! bits for Eq/non-Eq instantiations. distinct_nontrivial = distinct sets of interesting fields.")


def replay(rep, path):
    j = json.load(open(path))["replay"]
    c = C.compile_single(j["code"], header=HEADER, runnable=j.get("runnable", False))
    if judge(c, j["refuse"]) is not None:
        print(f"VIOLATION property=C17 replay={path}")
        return 1
    print("replay: no violation")
    return 0
