"""C04 — explicit bound(...) follows the documented nine-level priority.
E-exp: where-clause atoms of the generated impl vs the reference resolution, at scale.
E-run: trait-solver bits (probe_impl! with AllBut<i>) confirm every textual mismatch before it is reported, and
(thorough) a compiled sample regardless of textual agreement."""
import json

from . import common as C
from . import cmpmodel as M

FLOOR = {"quick": 20000, "thorough": 300000}
NRANDOM = {"quick": 30000, "thorough": 600000}
NCOMPILE = {"quick": 120, "thorough": 1500}
HEADER = "#![allow(warnings)]"
D = "::dxrt::"

ENUM_OK = ["Copy", "Clone", "Debug", "Default", "PartialEq", "Eq", "PartialOrd", "Ord", "Hash"]
STRUCT_ONLY = ["Add", "AddAssign", "Neg", "Sub", "Not", "ShlAssign"]
PATH = {"Copy": "::core::marker::Copy", "Clone": "::core::clone::Clone", "Debug": "::core::fmt::Debug",
        "Default": "::core::default::Default", "PartialEq": "::core::cmp::PartialEq", "Eq": "::core::cmp::Eq",
        "PartialOrd": "::core::cmp::PartialOrd", "Ord": "::core::cmp::Ord", "Hash": "::core::hash::Hash"}
CONFIGS = ["absent", "empty", "pred", "dots", "pred+dots", "type", "type+dots"]


def helpers_for(trait):
    """Helper attributes that can carry bound(..) for this trait, most specific first."""
    if trait == "Debug":
        return ["debug"]
    if trait == "Default":
        return ["default"]
    if trait in M.AFFECTS:
        return list(M.AFFECTS[trait])
    return []


class Alloc:
    def __init__(self):
        self.n = 0

    def next(self):
        self.n += 1
        return self.n - 1


def level_cfg(rng, p_absent=0.55):
    return "absent" if rng.random() < p_absent else rng.choice(CONFIGS[1:])


def mark_unsized(rng, spec):
    """Some explicit predicates carry a relaxed bound too (`T: ?Sized + M<i>`): it belongs to the predicate."""
    if rng.random() < 0.12:
        for l in all_levels(spec):
            if "pred" in l["cfg"] and rng.random() < 0.5:
                l["unsz"] = True


def gen_placement(rng, trait, alloc, allow_helper=True):
    """One placement (type, variant or field): the helper chain + per-trait + shared levels."""
    chain = []
    for h in (helpers_for(trait) if allow_helper else []):
        chain.append({"helper": h, "cfg": level_cfg(rng, 0.6), "m": alloc.next()})
    return {"chain": chain, "this": {"cfg": level_cfg(rng), "m": alloc.next()}, "common": {"cfg": level_cfg(rng), "m": alloc.next()}}


def co_choices(trait):
    """Traits that can be derived next to `trait` without sharing helper attributes or supertrait stubs with it."""
    if trait in M.AFFECTS:
        return ["Clone", "Debug"]
    return [t for t in ("Clone", "Debug", "Hash", "PartialEq") if t != trait and not (trait == "Copy" and t == "Clone")]


def gen_spec(rng, trait=None, kind=None, co_ok=True):
    trait = trait or rng.choice(ENUM_OK * 3 + STRUCT_ONLY)
    if trait in STRUCT_ONLY:
        kind = "struct"
    kind = kind or rng.choice(["struct", "enum"])
    for _ in range(50):
        alloc = Alloc()
        spec = {"trait": trait, "kind": kind, "entry": rng.choice(["attr", "derive"]), "where": rng.random() < 0.3,
                "where_unsized": rng.random() < 0.1}
        spec["type"] = gen_placement(rng, trait, alloc)
        nv = 1 if kind == "struct" else rng.randint(1, 2)
        spec["variants"] = []
        spec["dv"] = rng.randrange(nv)
        for vi in range(nv):
            active = not (trait == "Default" and kind == "enum" and vi != spec["dv"])
            v = {"style": rng.choice(["named", "tuple"]), "fields": [], "active": active}
            v["place"] = gen_placement(rng, trait, alloc) if (kind == "enum" and active) else None
            # enum variants may have no fields at all (`V`, `V()`, `V {}`): variant-level bounds still count
            nf = rng.randint(1, 2)
            if kind == "enum" and rng.random() < 0.25:
                nf = 0
                v["style"] = rng.choice(["named", "tuple", "unit"])
            for fi in range(nf):
                f = {"place": gen_placement(rng, trait, alloc) if active else None, "g": None}
                # Default: an explicit value on the field - its own default bound is gone, explicit bound(..) levels stay
                f["dval"] = bool(trait == "Default" and active and rng.random() < 0.35)
                v["fields"].append(f)
            spec["variants"].append(v)
        if not any(v["fields"] for v in spec["variants"]):
            continue    # the type parameter has to be used somewhere
        # field wrapper markers
        for v in spec["variants"]:
            for f in v["fields"]:
                f["g"] = alloc.next()
        # a second trait in the same lists with per-trait bounds of its own: they must not reach `trait`
        spec["co"] = None
        if co_ok and rng.random() < 0.35:
            spec["co"] = {"trait": rng.choice(co_choices(trait)), "pos": rng.choice(["before", "before", "after"]), "m": alloc.next()}
            for v in spec["variants"]:
                for pl in [v["place"]] + [f["place"] for f in v["fields"]]:
                    if pl is not None and rng.random() < 0.4:
                        pl["co"] = {"pos": rng.choice(["before", "before", "after"]), "m": alloc.next()}
        if alloc.n <= C.NMARK:
            mark_unsized(rng, spec)
            return spec
    raise RuntimeError("could not fit markers")


def bound_text(level):
    c, m = level["cfg"], level["m"]
    if c == "absent":
        return None
    parts = []
    if "pred" in c:
        parts.append(f"T: ?::core::marker::Sized + {D}M<{m}>" if level.get("unsz") else f"T: {D}M<{m}>")
    if "type" in c:
        parts.append(f"{D}Wr<{m}, T>")
    if "dots" in c:
        parts.append("..")
    return "bound(" + ", ".join(parts) + ")"


def placement_attrs(pl, trait, default_marker=False, dval=None):
    """Attribute strings for a placement (variant or field; the type's `this`/`common` go into the main list).
    dval: text of an explicit default value for the field, or None."""
    out = []
    for lv in pl["chain"]:
        b = bound_text(lv)
        h = lv["helper"]
        if h == "default":
            if b is not None:
                out.append(f"#[default({dval or '_'}, {b})]")
            elif dval:
                out.append(f"#[default({dval})]")
            elif default_marker:
                out.append("#[default]")
        elif b is not None:
            out.append(f"#[{h}({b})]")
    return out


def derive_ex_attr(pl, trait, cotrait=None):
    bt, bc = bound_text(pl["this"]), bound_text(pl["common"])
    co = pl.get("co") if cotrait else None
    if bt is None and bc is None and co is None:
        return []
    el = [f"{trait}({bt})" if bt is not None else trait]
    if co is not None:
        ce = f"{cotrait}(bound(T: {D}M<{co['m']}>))"
        el = [ce] + el if co["pos"] == "before" else el + [ce]
    return [f"#[derive_ex({', '.join(el)}{', ' + bc if bc is not None else ''})]"]


def co_type_elem(spec):
    """The co-derived trait's own complete bound list at type level (no `..`): its where-clause is exactly this list."""
    co = spec["co"]
    ms = [co["m"]] + [f["g"] for v in spec["variants"] for f in v["fields"]]
    return f"{co['trait']}(bound(" + ", ".join(f"T: {D}M<{m}>" for m in ms) + "))"


def trait_order(spec):
    co = spec.get("co")
    if not co:
        return [spec["trait"]]
    return [co["trait"], spec["trait"]] if co["pos"] == "before" else [spec["trait"], co["trait"]]


def field_ty(f, mode):
    w = "Wr" if mode == "cond" else "Aw"
    return f"{D}{w}<{f['g']}, T>"


def render_item(spec, mode="cond", field_modes=None, name="Ty"):
    """mode: 'cond' -> field types implement the trait iff T: M<g>; 'always' -> unconditionally.
    field_modes: optional dict g -> mode."""
    trait = spec["trait"]
    cot = spec["co"]["trait"] if spec.get("co") else None
    wh = f" where T: {D}Tr" if spec["where"] else ""
    if spec.get("where_unsized"):
        # a relaxed bound in the declared where-clause has to be carried over like any other predicate (E-exp only)
        wh = f" where T: ?::core::marker::Sized + {D}Tr" if spec["where"] else " where T: ?::core::marker::Sized"
    tattrs = placement_attrs(spec["type"], trait)
    bodies = []
    for vi, v in enumerate(spec["variants"]):
        fs = []
        for fi, f in enumerate(v["fields"]):
            a = ""
            fm = (field_modes or {}).get(f["g"], mode)
            if f["place"]:
                dval = f"{D}{'Wr' if fm == 'cond' else 'Aw'}(::core::marker::PhantomData)" if f.get("dval") else None
                a = " ".join(placement_attrs(f["place"], trait, dval=dval) + derive_ex_attr(f["place"], trait, cot))
                a = a + " " if a else ""
            fs.append(f"{a}f{fi}: {field_ty(f, fm)}" if v["style"] == "named" else f"{a}{field_ty(f, fm)}")
        bodies.append("{ " + ", ".join(fs) + " }" if v["style"] == "named" else ("(" + ", ".join(fs) + ")" if v["style"] == "tuple" else ""))
    if spec["kind"] == "struct":
        item = (f"pub struct {name}<T>{wh} {bodies[0]}" if spec["variants"][0]["style"] == "named" else f"pub struct {name}<T>{bodies[0]}{wh};")
    else:
        vs = []
        for vi, (v, b) in enumerate(zip(spec["variants"], bodies)):
            va = []
            if v["place"]:
                va = placement_attrs(v["place"], trait, default_marker=(trait == "Default" and vi == spec["dv"])) + derive_ex_attr(v["place"], trait, cot)
            if trait == "Default" and vi == spec["dv"] and not any(x.startswith("#[default") for x in va):
                va = ["#[default]"] + va
            vs.append(" ".join(va) + (" " if va else "") + f"V{vi}{b}")
        item = f"pub enum {name}<T>{wh} {{ " + ", ".join(vs) + " }"
    bt, bc = bound_text(spec["type"]["this"]), bound_text(spec["type"]["common"])
    els = [f"{trait}({bt})" if bt is not None else trait]
    if cot:
        els = [co_type_elem(spec)] + els if spec["co"]["pos"] == "before" else els + [co_type_elem(spec)]
    main = ", ".join(els) + (f", {bc}" if bc is not None else "")
    return " ".join(tattrs) + (" " if tattrs else "") + item, main


# ---------------------------------------------------------------------------
# reference resolution
# ---------------------------------------------------------------------------

def walk(pl, cont, out):
    """Apply one placement's levels in documented order; returns whether resolution continues."""
    if pl is None:
        return cont
    for lv in pl["chain"] + [pl["this"], pl["common"]]:
        if not cont:
            break
        c = lv["cfg"]
        if c == "absent":
            continue
        if "pred" in c:
            out.add(("pred", lv["m"]))
        if "type" in c:
            out.add(("type", lv["m"]))
        cont = "dots" in c
    return cont


def resolve(spec):
    """Set of contributions: ('pred', m) | ('type', m) | ('field', g)."""
    out = set()
    cont = walk(spec["type"], True, out)
    for v in spec["variants"]:
        if not v["active"]:
            continue
        cv = walk(v["place"], cont, out)
        for f in v["fields"]:
            cf = walk(f["place"], cv, out)
            if cf and not f.get("dval"):
                out.add(("field", f["g"]))
    return out


def short_for(trait, ty):
    """Bound text (as dxmon's `short`) that a Type entry / default field bound gets in the first (owned) impl."""
    if trait == "Add" or trait == "Sub":
        return f"{trait} < {ty} , Output = {ty} >"
    if trait in ("AddAssign", "ShlAssign"):
        return f"{trait} < {ty} >"
    if trait in ("Neg", "Not"):
        return f"{trait} < Output = {ty} >"
    return trait


def predicted_atoms(spec, contribs, norm_wr, norm_field):
    atoms = set()
    if spec["where"]:
        atoms.add(("T", "Tr"))
    if spec.get("where_unsized") or any(l.get("unsz") for l in all_levels(spec) if "pred" in l["cfg"] and l["cfg"] != "absent" and ("pred", l["m"]) in contribs):
        atoms.add(("T", "?Sized"))
    for kind, i in contribs:
        if kind == "pred":
            atoms.add(("T", f"M < {i} >"))
        elif kind == "type":
            atoms.add((norm_wr[i], short_for(spec["trait"], norm_wr[i])))
        else:
            atoms.add((norm_field[i], short_for(spec["trait"], norm_field[i])))
    return atoms


def observed_atoms(o, spec, which=None):
    if o.get("status") != "ok" or not o.get("parses"):
        return None, "expansion failed"
    order = trait_order(spec)
    slots, rest = C.impl_slots(o["items"], order, skip_first_item=(spec["entry"] == "attr"))
    s = slots[order.index(which or spec["trait"])]
    if s["status"] != "impl" or s["items"][0].get("kind") != "impl":
        return None, "no impl: " + str((s["items"] or [{}])[0].get("msg"))[:200]
    return {(a["ty"], a["short"]) for a in s["items"][0]["where_atoms"]}, None


def request_for(spec, idx):
    item, main = render_item(spec, "cond")
    wr = [f"{D}Wr<{i}, T>" for i in range(C.NMARK)]
    if spec["entry"] == "attr":
        return {"id": idx, "entry": "attr", "attr": main, "item": item}
    return {"id": idx, "entry": "derive", "attr": "", "item": f"#[derive_ex({main})] {item}"}


def describe(spec):
    def lv(l):
        return l["cfg"] if l["cfg"] != "absent" else "-"

    def pl(p):
        if p is None:
            return "."
        return "[" + ",".join(f"{x['helper']}:{lv(x)}" for x in p["chain"]) + f"|{lv(p['this'])}|{lv(p['common'])}]"
    co = spec.get("co")
    cod = ""
    if co:
        n = sum(1 for v in spec["variants"] for q in [v["place"]] + [f["place"] for f in v["fields"]] if q and q.get("co"))
        cod = f" co[{co['trait']} {co['pos']} +{n} inner]"
    return (f"{spec['trait']} {spec['kind']} {spec['entry']}{cod} type{pl(spec['type'])} " +
            " ".join(f"V{i}{pl(v['place'])}(" + ",".join(pl(f["place"]) for f in v["fields"]) + ")" for i, v in enumerate(spec["variants"])))


def first_divergence(spec, missing, extra):
    """Signature material: which kind of level is involved in the disagreement."""
    names = {}
    for lvl in spec["type"]["chain"]:
        names[lvl["m"]] = f"type.{lvl['helper']}"
    if spec.get("co"):
        names[spec["co"]["m"]] = "type.co-trait"
    names[spec["type"]["this"]["m"]] = "type.this"
    names[spec["type"]["common"]["m"]] = "type.common"
    for v in spec["variants"]:
        if v["place"]:
            for lvl in v["place"]["chain"]:
                names[lvl["m"]] = f"variant.{lvl['helper']}"
            if v["place"].get("co"):
                names[v["place"]["co"]["m"]] = "variant.co-trait"
            names[v["place"]["this"]["m"]] = "variant.this"
            names[v["place"]["common"]["m"]] = "variant.common"
        for f in v["fields"]:
            if f["place"]:
                for lvl in f["place"]["chain"]:
                    names[lvl["m"]] = f"field.{lvl['helper']}"
                if f["place"].get("co"):
                    names[f["place"]["co"]["m"]] = "field.co-trait"
                names[f["place"]["this"]["m"]] = "field.this"
                names[f["place"]["common"]["m"]] = "field.common"
            names[f["g"]] = "field.default-bound"
    import re

    def lab(atoms):
        out = set()
        for ty, sh in atoms:
            m = re.search(r"M < (\d+) >", sh) or re.search(r"W[r] < (\d+) ,", ty)
            out.add(names.get(int(m.group(1)), "?") if m else f"{ty}:{sh}"[:30])
        return ",".join(sorted(out))
    return f"missing[{lab(missing)}]|extra[{lab(extra)}]"


# ---------------------------------------------------------------------------
# behavioural confirmation (E-run)
# ---------------------------------------------------------------------------

def super_impls(trait, name):
    sup = {"Copy": ["Clone"], "Eq": ["PartialEq"], "PartialOrd": ["PartialEq"], "Ord": ["PartialEq", "Eq", "PartialOrd"]}.get(trait, [])
    body = {"Clone": "fn clone(&self) -> Self { loop {} }", "PartialEq": "fn eq(&self, _: &Self) -> bool { loop {} }", "Eq": "",
            "PartialOrd": "fn partial_cmp(&self, _: &Self) -> ::core::option::Option<::core::cmp::Ordering> { loop {} }"}
    return "\n".join(f"impl<T> {PATH[s]} for {name}<T> {{ {body[s]} }}" for s in sup)


def probe_trait(trait, me):
    if trait in PATH:
        return f"{me}: {PATH[trait]}"
    if trait in ("Add", "Sub"):
        return f"{me}: ::core::ops::{trait}<{me}>"
    if trait in ("AddAssign", "ShlAssign"):
        return f"{me}: ::core::ops::{trait}<{me}>"
    return f"{me}: ::core::ops::{trait}"


def confirm_code(spec, contribs):
    """Field types: conditional wrapper where the model predicts the default bound (so that the generated body
    type-checks through it and its presence is visible), unconditional wrapper otherwise."""
    modes = {}
    for v in spec["variants"]:
        for f in v["fields"]:
            modes[f["g"]] = "cond" if ("field", f["g"]) in contribs else "always"
    item, main = render_item(spec, field_modes=modes)
    if spec["where"]:
        item = item  # T: Tr holds for AllBut? -> AllBut does not implement Tr; drop the where clause for the compiled form
    head = f"#[::derive_ex::derive_ex({main})]\n" if spec["entry"] == "attr" else f"#[derive(::derive_ex::Ex)]\n#[derive_ex({main})]\n"
    markers = sorted({i for _, i in contribs} | all_markers(spec))
    probes = "\n".join(
        f'::dxrt::ev!("probe", "m" => {i}, "holds" => ::dxrt::probe_impl!({probe_trait(spec["trait"], f"Ty<{D}AllBut<{i}>>")}));' for i in markers)
    probes += f'\n::dxrt::ev!("probe", "m" => -1, "holds" => ::dxrt::probe_impl!({probe_trait(spec["trait"], f"Ty<{D}AllM>")}));'
    return head + item + "\n" + super_impls(spec["trait"], "Ty") + "\npub fn run() {\n" + probes + "\n}", markers


def all_markers(spec):
    out = set()

    def pl(p):
        if p:
            for lv in p["chain"] + [p["this"], p["common"]]:
                if lv["cfg"] != "absent":
                    out.add(lv["m"])
            if p.get("co"):
                out.add(p["co"]["m"])
    if spec.get("co"):
        out.add(spec["co"]["m"])
    pl(spec["type"])
    for v in spec["variants"]:
        pl(v["place"])
        for f in v["fields"]:
            pl(f["place"])
            out.add(f["g"])
    return out


def check_probes(spec, contribs, events):
    """Impl applies to Ty<AllBut<i>> iff marker i is not needed by the predicted where-clause."""
    need = {i for _, i in contribs}
    modes = {f["g"]: (("field", f["g"]) in contribs) for v in spec["variants"] for f in v["fields"]}
    bad = []
    seen = 0
    for e in events:
        if e.get("k") != "probe":
            continue
        seen += 1
        i = e["m"]
        if i == -1:
            want = True
        else:
            want = i not in need
        if e["holds"] != want:
            bad.append((i, want, e["holds"]))
    return bad, seen


def compilable(spec):
    # the compiled form instantiates T with AllBut<i>, which does not implement ::dxrt::Tr; the wrapper field types need T: Sized
    return not spec["where"] and not spec.get("where_unsized") and not any(l.get("unsz") for l in all_levels(spec))


def all_levels(spec):
    out = []

    def pl(p):
        if p:
            out.extend(p["chain"] + [p["this"], p["common"]])
    pl(spec["type"])
    for v in spec["variants"]:
        pl(v["place"])
        for f in v["fields"]:
            pl(f["place"])
    return out


def run(rep, tier, rng):
    # ---- E-exp at scale ----
    specs = []
    # core corpus: every single level alone with every config, every trait
    for trait in ENUM_OK + STRUCT_ONLY:
        for kind in (["struct"] if trait in STRUCT_ONLY else ["struct", "enum"]):
            base = gen_spec(C.rng_for("C04core", 0), trait, kind, co_ok=False)
            levels = []

            def collect(p):
                if p:
                    levels.extend(p["chain"] + [p["this"], p["common"]])
            collect(base["type"])
            for v in base["variants"]:
                collect(v["place"])
                for f in v["fields"]:
                    collect(f["place"])
            for li in range(len(levels)):
                for cfg in CONFIGS[1:]:
                    s = json.loads(json.dumps(base))
                    lv2 = []

                    def collect2(p):
                        if p:
                            lv2.extend(p["chain"] + [p["this"], p["common"]])
                    collect2(s["type"])
                    for v in s["variants"]:
                        collect2(v["place"])
                        for f in v["fields"]:
                            collect2(f["place"])
                    for x in lv2:
                        x["cfg"] = "absent"
                    lv2[li]["cfg"] = cfg
                    s["where"] = False
                    specs.append(s)
                # ordered pairs of levels: the earlier one with {stop, ..}, the later one with a predicate
                for lj in range(li + 1, len(levels)):
                    if (li + lj) % 3:
                        continue
                    for cfg in ("pred", "pred+dots"):
                        s = json.loads(json.dumps(base))
                        lv2 = []

                        def collect3(p):
                            if p:
                                lv2.extend(p["chain"] + [p["this"], p["common"]])
                        collect3(s["type"])
                        for v in s["variants"]:
                            collect3(v["place"])
                            for f in v["fields"]:
                                collect3(f["place"])
                        for x in lv2:
                            x["cfg"] = "absent"
                        lv2[li]["cfg"] = cfg
                        lv2[lj]["cfg"] = "pred"
                        s["where"] = False
                        specs.append(s)
            # a co-derived trait with a per-trait bound before / after the judged trait, in the type's list and in a field's list
            for pos in ("before", "after"):
                for inner in (False, True):
                    for this_cfg in ("absent", "pred+dots"):
                        s = json.loads(json.dumps(base))
                        lv4 = []

                        def collect4(p):
                            if p:
                                lv4.extend(p["chain"] + [p["this"], p["common"]])
                        collect4(s["type"])
                        for v in s["variants"]:
                            collect4(v["place"])
                            for f in v["fields"]:
                                collect4(f["place"])
                        for x in lv4:
                            x["cfg"] = "absent"
                        s["type"]["this"]["cfg"] = this_cfg
                        s["where"] = False
                        s["co"] = {"trait": co_choices(trait)[0], "pos": pos, "m": C.NMARK - 1}
                        if inner:
                            v = [v for v in s["variants"] if v["active"]][0]
                            v["fields"][0]["place"]["co"] = {"pos": pos, "m": C.NMARK - 2}
                        specs.append(s)
    ncore = len(specs)
    rep.count("core_configurations", ncore)
    while len(specs) < ncore + NRANDOM[tier]:
        specs.append(gen_spec(rng))
    wr = [f"{D}Wr<{i}, T>" for i in range(C.NMARK)]
    reqs = [request_for(s, i) for i, s in enumerate(specs)]
    reqs[0]["norm"] = wr
    obs = C.expand(reqs)
    norm_wr = obs[0]["norm"]
    norm_field = norm_wr    # default-bound field types are Wr<g, T> in the expanded form
    mism = {}
    respelled = 0
    for s, o in zip(specs, obs):
        rep.evaluations += 1
        contribs = resolve(s)
        pred = predicted_atoms(s, contribs, norm_wr, norm_field)
        got, err = observed_atoms(o, s)
        rep.nontrivial.add((s["trait"], s["kind"], tuple(sorted((k, ) for k, _ in contribs)), len(contribs)))
        if got is None:
            sig = f"C04|no-impl|{s['trait']}|{s['kind']}"
            mism.setdefault(sig, []).append((s, f"{err}: {describe(s)}", None, None))
            continue
        if got != pred:
            missing, extra = pred - got, got - pred
            sig = f"C04|atoms|{s['trait'] if s['trait'] in ('Copy', 'Default', 'Debug', 'Clone') else ('cmp' if s['trait'] in M.AFFECTS else 'op')}|{s['kind']}|{first_divergence(s, missing, extra)}"
            mism.setdefault(sig, []).append((s, f"where-clause atoms differ: missing {sorted(missing)} extra {sorted(extra)}: {describe(s)}", missing, extra))
    rep.count("expansions_compared", len(specs))
    rep.count("textual_mismatch_signatures", len(mism))
    # ---- every textual mismatch is confirmed behaviourally before it is reported ----
    conf_cases = []
    for k, (sig, lst) in enumerate(list(mism.items())[:40]):
        cand = [x for x in lst if compilable(x[0])] or lst
        s = min(cand, key=lambda x: len(describe(x[0])))[0]
        if not compilable(s):
            s = dict(s, where=False)
        code, markers = confirm_code(s, resolve(s))
        conf_cases.append(C.Case(f"m{k}", code, {"spec": s, "sig": sig, "n": len(lst), "what": lst[0][1]}))
    # ---- compiled sample regardless of textual agreement ----
    pool = [s for s in specs if compilable(s)]
    samp = rng.sample(pool[ncore:], min(NCOMPILE[tier], len(pool) - ncore)) + rng.sample(pool[:ncore], min(NCOMPILE[tier] // 3, ncore))
    samp_cases = [C.Case(f"s{k}", confirm_code(s, resolve(s))[0], {"spec": s}) for k, s in enumerate(samp)]
    _, notes = C.run_cases(conf_cases + samp_cases, "c04", header=HEADER, batch_size=40)
    for n in notes:
        rep.inconcl(n)
    for c in conf_cases:
        s, sig = c.meta["spec"], c.meta["sig"]
        if c.status == "inconclusive":
            rep.inconcl("confirmation run inconclusive for " + sig)
            continue
        if c.status == "compile_fail":
            who, d = C.blame(c)
            if who == "harness":
                rep.inconcl(f"confirmation program does not compile outside derive_ex's output: {str(d['message'])[:120]}")
                continue
            # the predicted where-clause makes the body type-check; the real one does not
            rep.violation(sig + "|body-does-not-typecheck", f"{c.meta['what']} -- confirmed: generated impl does not type-check under its own where-clause "
                          f"({d['code']}: {(d['message'] or '')[:120]}) [{c.meta['n']} configurations]", {"spec": s, "code": c.code})
            continue
        bad, seen = check_probes(s, resolve(s), c.events)
        if bad:
            rep.violation(sig, f"{c.meta['what']} -- confirmed behaviourally: marker {bad[0][0]}: impl applies={bad[0][2]}, documented={bad[0][1]} "
                          f"[{c.meta['n']} configurations]", {"spec": s, "code": c.code})
        else:
            respelled += 1
            rep.inconcl(f"textual difference without behavioural difference (respelled): {sig}")
    rep.count("respelled", respelled)
    sigs = {}
    for c in samp_cases:
        s = c.meta["spec"]
        if c.status == "inconclusive":
            continue
        if c.status == "compile_fail":
            who, d = C.blame(c)
            if who == "harness":
                rep.inconcl(f"sample program does not compile outside derive_ex's output: {str(d['message'])[:120]}")
                continue
            sigs.setdefault(f"C04|sample:body-does-not-typecheck|{s['trait']}|{d['code']}", []).append((c, f"{d['code']}: {(d['message'] or '')[:150]}: {describe(s)}"))
            continue
        bad, seen = check_probes(s, resolve(s), c.events)
        rep.evaluations += seen
        rep.count("probe_bits_compared", seen)
        rep.count("configurations_compiled")
        for (i, want, got) in bad[:1]:
            sigs.setdefault(f"C04|sample:probe|{s['trait']}|{s['kind']}", []).append((c, f"marker {i}: impl applies={got}, documented={want}: {describe(s)}"))
    for sig, lst in list(sigs.items())[:15]:
        c, what = lst[0]
        again = C.compile_single(c.code, header=HEADER)
        if again.status == "compile_fail" or (again.status == "ok" and check_probes(c.meta["spec"], resolve(c.meta["spec"]), again.events)[0]):
            rep.violation(sig, what + f" [{len(lst)} cases]", {"spec": c.meta["spec"], "code": c.code})
        else:
            rep.inconcl("did not reproduce in isolation: " + sig)
    # ---- relaxed bounds (`?Sized`) written in the declared where-clause or in a bound(..) predicate must reach the impl ----
    ucases = []
    PH, BX = "::core::marker::PhantomData<T>", "::std::boxed::Box<T>"
    for k, (tr, path) in enumerate((("Clone", PATH["Clone"]), ("Debug", PATH["Debug"]), ("PartialEq", PATH["PartialEq"]), ("Default", PATH["Default"]),
                                    ("Hash", PATH["Hash"]), ("PartialOrd", PATH["PartialOrd"]))):
        fty = PH if tr in ("Default",) or k % 2 else BX
        for form, (decl, wh, arg) in enumerate((("<T>", " where T: ?::core::marker::Sized", tr),
                                                 ("<T: ?::core::marker::Sized>", "", f"{tr}(bound(..))"),
                                                 ("<T>", f" where T: ?::core::marker::Sized + {D}Tr", f"{tr}, bound(T: {D}Tr, ..)"))):
            sup = "PartialEq, " if tr == "PartialOrd" else ""
            head = f"#[::derive_ex::derive_ex({sup}{arg})]" if (k + form) % 2 else f"#[derive(::derive_ex::Ex)]\n#[derive_ex({sup}{arg})]"
            inst = "str" if form < 2 else f"{D}YesU"
            if form == 2 and tr in ("Clone", "Default"):
                fty = PH            # Box<YesU> is not Clone
            code = (f"{head}\npub struct Ty{decl}({fty}){wh};\npub fn run() {{\n"
                    f'::dxrt::ev!("uprobe", "holds" => ::dxrt::probe_impl!(Ty<{inst}>: {path}));\n}}')
            ucases.append(C.Case(f"u{len(ucases)}", code, {"what": f"{tr} form{form} {fty.split('::')[-1]}"}))
    _, unotes = C.run_cases(ucases, "c04u", header=HEADER, batch_size=9)
    for n in unotes:
        rep.inconcl(n)
    for c in ucases:
        if c.status == "inconclusive":
            continue
        rep.evaluations += 1
        rep.count("unsized_instantiation_probes")
        if c.status == "compile_fail":
            who, d = C.blame(c)
            if who == "harness":
                rep.inconcl(f"?Sized program does not compile outside derive_ex's output: {str(d['message'])[:120]}")
            else:
                rep.violation(f"C04|relaxed-bound|body-does-not-typecheck|{c.meta['what'].split()[0]}", f"{c.meta['what']}: {d['code']}: {(d['message'] or '')[:150]}\n{c.code[:300]}",
                              {"spec": None, "code": c.code})
            continue
        ev = next((e for e in c.events if e.get("k") == "uprobe"), None)
        if ev is None:
            rep.inconcl("no probe event in " + c.name)
        elif ev["holds"] is not True:
            rep.violation(f"C04|relaxed-bound|impl-does-not-apply-to-unsized|{c.meta['what'].split()[0]}",
                          f"{c.meta['what']}: a `?Sized` written by the user did not reach the impl (it does not apply to an unsized instantiation)\n{c.code[:300]}",
                          {"spec": None, "code": c.code})
    s0 = specs[ncore + 1]
    rep.sample({"configuration": describe(s0), "source": render_item(s0)[0][:500], "derive_ex_args": render_item(s0)[1],
                "predicted_contributions": sorted(map(str, resolve(s0)))})
    if samp_cases and samp_cases[0].events:
        rep.sample({"compiled": samp_cases[0].code[:500], "probes": [e for e in samp_cases[0].events if e.get("k") == "probe"][:4]})
    # canary: a model in which a variant-level stop also stops the other variant must be noticed on a real case
    for s, o in zip(specs, obs):
        if s["kind"] == "enum" and len(s["variants"]) == 2 and s["variants"][0]["active"] and s["variants"][1]["active"]:
            c0 = resolve(s)
            s2 = json.loads(json.dumps(s))
            for f in s2["variants"][1]["fields"]:
                for lv in f["place"]["chain"] + [f["place"]["this"], f["place"]["common"]]:
                    lv["cfg"] = "absent"
            s2["variants"][1]["place"]["this"]["cfg"] = "empty"
            for lv in s2["variants"][1]["place"]["chain"]:
                lv["cfg"] = "absent"
            if resolve(s2) != c0:
                got, err = observed_atoms(o, s)
                if got is not None:
                    rep.canary = predicted_atoms(s, resolve(s2), norm_wr, norm_field) != got
                    break
    # ---- the per-trait and the shared level of one field / variant written as TWO attributes (or the trait named twice in one):
    # refused with an error of derive_ex's own, or both levels contribute - never one of them silently dropped
    M_ = "::dxrt::M"
    dup_items = [
        ("field", f"struct Ty<T, U>(#[derive_ex(Clone(bound(T: {M_}<8>, ..)))] #[derive_ex(Clone, bound(T: {M_}<9>, ..))] T, U);", (8, 9)),
        ("field", f"struct Ty<T, U> {{ #[derive_ex(Clone, bound(T: {M_}<9>, ..))] #[derive_ex(Clone(bound(T: {M_}<8>, ..)))] a: T, b: U }}", (8, 9)),
        ("field", f"struct Ty<T, U>(#[derive_ex(Clone(bound(T: {M_}<8>, ..)), Clone(bound(T: {M_}<7>, ..)))] T, U);", (8, 7)),
        ("variant", f"enum Ty<T> {{ A, #[derive_ex(Clone(bound(T: {M_}<5>, ..)))] #[derive_ex(Clone, bound(T: {M_}<6>, ..))] B(T) }}", (5, 6)),
        ("variant", f"enum Ty<T> {{ A, #[derive_ex(PartialEq, bound(T: {M_}<6>, ..))] #[derive_ex(PartialEq(bound(T: {M_}<5>, ..)))] B {{ x: T }} }}", (5, 6)),
    ]
    dreqs, dmeta = [], []
    for where, item, marks in dup_items:
        tr = "PartialEq" if "PartialEq" in item else "Clone"
        for entry in ("attr", "derive"):
            dreqs.append({"id": len(dreqs), "entry": entry, "attr": tr if entry == "attr" else "", "item": item if entry == "attr" else f"#[derive_ex({tr})] {item}"})
            dmeta.append((where, tr, marks, entry))
    for o, r, (where, tr, marks, entry) in zip(C.expand(dreqs), dreqs, dmeta):
        rep.evaluations += 1
        rep.count("same_trait_in_two_entries_of_one_" + where)
        if o.get("status") != "ok" or not o.get("parses"):
            rep.violation("C04|duplicate-entry|expansion-failed", str(r)[:300], {"spec": None, "code": "", "request": r})
            continue
        if any(it["kind"] == "compile_error" for it in o["items"]):
            continue
        slots, _ = C.impl_slots(o["items"], [tr], skip_first_item=(entry == "attr"))
        atoms = {a["short"] for a in slots[0]["items"][0].get("where_atoms", [])} if slots[0]["status"] == "impl" else set()
        missing = [m for m in marks if not any(f"M<{m}>" in a.replace(" ", "") for a in atoms)]
        if missing:
            rep.violation(f"C04|duplicate-entry-silently-dropped|{where}", f"two entries for `{tr}` on one {where}: accepted, but the predicate of level marker {missing} is not in the impl ({sorted(atoms)}): {r['item']}",
                          {"spec": None, "code": "", "request": r, "marks": list(marks), "trait": tr})
    # ---- a repeated field type in front of other bound types: every distinct type keeps its predicate (E-exp)
    PH = "::core::marker::PhantomData"
    rep_items = [
        (f"struct Ty<T, U>(T, T, #[derive_ex(Clone(bound(U)))] {PH}<U>);", "Clone", ["T", "U"]),
        (f"struct Ty<T, U, V> {{ a: T, b: T, #[derive_ex(PartialEq(bound(U, ..)))] c: {PH}<U>, d: ::core::option::Option<V> }}", "PartialEq", ["T", "U", "::core::option::Option<V>"]),
        (f"enum Ty<T, U> {{ A(T), B(T, T), #[derive_ex(Debug(bound(U)))] C({PH}<U>), D(::std::vec::Vec<U>) }}", "Debug", ["T", "U", "::std::vec::Vec<U>"]),
        ("struct Ty<T, U>(::dxrt::Fwd<T>, ::dxrt::Fwd<T>, T, U, U);", "Add", ["::dxrt::Fwd<T>", "T", "U"]),
    ]
    rreqs, rmeta = [], []
    for item, tr, want in rep_items:
        for entry in ("attr", "derive"):
            rreqs.append({"id": len(rreqs), "entry": entry, "attr": tr if entry == "attr" else "", "item": item if entry == "attr" else f"#[derive_ex({tr})] {item}"})
            rmeta.append((tr, want, entry))
    for o, r, (tr, want, entry) in zip(C.expand(rreqs), rreqs, rmeta):
        rep.evaluations += 1
        rep.count("repeated_field_type_requests")
        if o.get("status") != "ok" or not o.get("parses"):
            rep.violation("C04|repeated-type|expansion-failed", str(r)[:300], {"spec": None, "code": "", "request": r, "marks": [], "trait": tr})
            continue
        slots, _ = C.impl_slots(o["items"], [tr], skip_first_item=(entry == "attr"))
        norm = lambda x: x.replace(" ", "")
        tys = {norm(a["ty"]).lstrip("&'_a") for it in (slots[0]["items"] if slots[0]["status"] == "impl" else []) for a in it.get("where_atoms", [])}
        missing = [w for w in want if not any(norm(w) == t or t.endswith(norm(w)) for t in tys)]
        if missing:
            rep.violation(f"C04|repeated-type|predicate-missing", f"a repeated field type in front of other bound types: no predicate for {missing} in the impl of {tr} (bounded types: {sorted(tys)}): {r['item']}",
                          {"spec": None, "code": "", "request": r, "marks": [], "trait": tr, "want_types": want})
    rep.rule = ("assignments of {absent, bound(), bound(P), bound(..), bound(P, ..), bound(Type), bound(Type, ..)} to the priority levels "
                "(type / variant / field x helper attribute(s) / per-trait / shared), P = `T: M<i>` unique per level, Type = a wrapper "
                "type unique per level, every field a distinct wrapper type; traits Copy, Clone, Debug, Default, the five comparison "
                "traits (helper chains of 1-4 attributes at each placement) and operator traits on structs; core corpus = every level "
                "alone with every form and pairs of levels, plus random assignments. Oracle: set of where-clause atoms (bounded type, "
                "single bound) of the generated impl == reference resolution. A textual difference is reported only after the single "
                "configuration has been compiled with the real proc-macro and probe_impl!(Ty<AllBut<i>>: Trait) disagrees with the "
                "reference (or the impl body fails to type-check); a sample is compiled regardless. The per-trait and the shared level of one field / variant "
                "written as two attributes (or the trait named twice) must be refused or both contribute. evaluations = expansions compared "
                "+ probe bits.")
    rep.assumptions = ["bound(..) on fields the derived code does not use, and key/by on fields, are not generated (the statement is silent)",
                       "declared where-clauses are only exercised textually (the compiled form instantiates T with marker probes)"]


def replay(rep, path):
    j = json.load(open(path))["replay"]
    s = j["spec"]
    if j.get("request"):
        o = C.expand([dict(j["request"], id=0)])[0]
        bad = o.get("status") != "ok" or not any(it["kind"] == "compile_error" for it in o.get("items", []))
        if not bad:
            print("replay: no violation")
            return 0
        if o.get("status") == "ok":
            slots, _ = C.impl_slots(o["items"], [j["trait"]], skip_first_item=(j["request"]["entry"] == "attr"))
            atoms = {a["short"] for a in slots[0]["items"][0].get("where_atoms", [])} if slots[0]["status"] == "impl" else set()
            bad = any(not any(f"M<{m}>" in a.replace(" ", "") for a in atoms) for m in j["marks"])
            if j.get("want_types"):
                tys = {a["ty"].replace(" ", "") for it in (slots[0]["items"] if slots[0]["status"] == "impl" else []) for a in it.get("where_atoms", [])}
                bad = any(not any(t.endswith(w.replace(" ", "")) for t in tys) for w in j["want_types"])
        print(f"VIOLATION property=C04 replay={path}" if bad else "replay: no violation")
        return 1 if bad else 0
    c = C.compile_single(j["code"], header=HEADER)
    if s is None:
        bad = c.status == "compile_fail" or any(e.get("k") == "uprobe" and e["holds"] is not True for e in c.events)
        print(f"VIOLATION property=C04 replay={path}" if bad else "replay: no violation")
        return 1 if bad else 0
    if c.status == "compile_fail" or (c.status == "ok" and check_probes(s, resolve(s), c.events)[0]):
        print(f"VIOLATION property=C04 replay={path}")
        return 1
    print("replay: no violation")
    return 0
