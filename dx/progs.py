"""Base programs from the other generators, for the metamorphic (C13) and compile-pipeline (C20) properties.
Every program is the text of one case module with `pub fn run()`; base names are the unique tokens
Ty / f0.. / V0.. / T, U / N / 'l."""
from . import cmpmodel as M
from . import cmpgen
from . import p_c07, p_c08, p_c09, p_c10, p_c11, p_c12, p_c18
import re


def base_programs(rng, n, sources=None):
    out = []
    sources = sources or ["cmp", "cmp", "cmp", "clone", "ops", "debug", "default", "dropin", "deref", "implops"]
    impl_specs = p_c09.specs_all("thorough")
    subsets = M.closed_subsets()
    deref = p_c18.accept_cases()
    tries = 0
    while len(out) < n and tries < n * 20:
        tries += 1
        src = sources[len(out) % len(sources)]
        if src == "cmp":
            d = rng.choice(subsets)
            s = cmpgen.gen_spec(rng, d, max_vals=12, hash_ignore_ok=(d == ["Hash"]))
            if s is None:
                continue
            code = cmpgen.render(s, want_hash=True)
            traits = list(d)
        elif src == "clone":
            s = p_c07.gen_spec(rng)
            code = p_c07.render(s)
            traits = ["Clone"]
        elif src == "ops":
            ops = rng.sample(p_c08.C.BINOPS + p_c08.C.ASSIGNOPS + p_c08.C.UNOPS, rng.randint(1, 3))
            nf = rng.randint(1, 3)
            generic = rng.random() < 0.4
            ft = [rng.choice(["T", "U", "term", "w"] if generic else ["term", "w"]) for _ in range(nf)]
            s = p_c08.make_spec(ops, rng.choice(["tuple", "named"]), ft, any(t in ("T", "U") for t in ft), rng.choice(["attr", "derive"]))
            code = p_c08.render(s)
            traits = ops
        elif src == "debug":
            s = p_c10.gen_spec(rng)
            code = p_c10.render(s)
            traits = ["Debug"]
        elif src == "default":
            s = p_c11.gen_spec(rng)
            if not p_c11.usable(s):
                continue
            code, _ = p_c11.render(s)
            traits = ["Default"]
        elif src == "dropin":
            s = p_c12.gen_spec(rng)
            if s["raw"]:
                continue
            code = p_c12.render(s).replace("'a", "'l")
            traits = s["traits"]
        elif src == "implops":
            sp = impl_specs[rng.randrange(len(impl_specs))]
            if sp["shape"] == "generic_self_where" and sp["lref"] and False:
                continue
            code = p_c09.render(sp)
            code = re.sub(r"\bA\b", "Ty", code)
            code = re.sub(r"\bO\b", "Ty2", code)
            traits = [sp["op"]]
        else:
            code, meta = deref[rng.randrange(len(deref))]
            code = code.replace("'a", "'l").replace("inner", "f0")
            traits = meta["traits"].split(", ")
        out.append({"code": code, "src": src, "traits": traits})
    return out


def rich_bases():
    """Hand-picked base programs that derive many traits at once and contain every renaming role
    (type, field, variant, type / const / lifetime parameter); used for the systematic name sweep of C13."""
    import random
    out = []
    base12 = {"raw": False, "entry": "derive", "type_attr": "", "where": False, "gdefault": False, "unsized": False}
    out.append({"src": "dropin", "traits": list(p_c12.ALL8), "code": p_c12.render(dict(
        base12, kind="enum", gen="aTN", traits=list(p_c12.ALL8), dv=0, variants=[
            {"style": "unit", "fields": []}, {"style": "tuple", "fields": ["T", "str"]},
            {"style": "named", "fields": ["optT", "arr", "u8"]}])).replace("'a", "'l")})
    no_default = [t for t in p_c12.ALL8 if t != "Default"]      # (`[u8; N]: Default` does not hold for every N)
    out.append({"src": "dropin", "traits": no_default, "code": p_c12.render(dict(
        base12, kind="struct", gen="aTN", entry="attr", traits=no_default, variants=[
            {"style": "tuple", "fields": ["T", "str", "arr"]}])).replace("'a", "'l")})
    # .. the const parameter declared in front of the type parameter
    out.append({"src": "dropin", "traits": no_default, "code": p_c12.render(dict(
        base12, kind="enum", gen="TN", entry="derive", traits=no_default, const_first=True, disc=False, variants=[
            {"style": "unit", "fields": []}, {"style": "named", "fields": ["arr", "T"]}]))})
    out.append({"src": "dropin", "traits": list(p_c12.ALL8), "code": p_c12.render(dict(
        base12, kind="struct", gen="T", entry="attr", traits=list(p_c12.ALL8), variants=[
            {"style": "named", "fields": ["T", "string"]}]))})
    out.append({"src": "dropin", "traits": list(p_c12.ALL8), "code": p_c12.render(dict(
        base12, kind="struct", gen="none", entry="derive", traits=list(p_c12.ALL8), variants=[{"style": "unit", "fields": []}]))})
    # comparison helpers incl. key / by / reverse on a generic enum and on a tuple struct
    full = ["Ord", "PartialOrd", "Eq", "PartialEq", "Hash"]
    for seed, want_kind in ((1, "enum"), (2, "struct")):
        rng = random.Random(seed)
        for _ in range(4000):
            s = cmpgen.gen_spec(rng, full, kind=want_kind, max_vals=10, plain_p=0.1)
            if s is None or not s["generic"]:
                continue
            fl = [M.combo_flags(f["combo"]) for v in s["variants"] for f in v["fields"]]
            if any(x[a]["by"] for x in fl for a in M.ATTRS) and any(x[a]["key"] for x in fl for a in M.ATTRS) and \
                    (want_kind == "enum" or s["variants"][0]["style"] == "tuple"):
                out.append({"src": "cmp", "traits": full, "code": cmpgen.render(s, want_hash=True)})
                break
    # operators on a struct with type, const and lifetime parameters
    ops = "Add, SubAssign, Neg, Not, Shl, BitXorAssign"
    for style in ("named", "tuple"):
        body = "{ f0: T, f1: ::dxrt::W, f2: ::dxrt::Lt<'l, N> }" if style == "named" else "(T, ::dxrt::W, ::dxrt::Lt<'l, N>);"
        mk = (lambda a, w: f"Ty {{ f0: ::dxrt::Term::new(\"{a}\"), f1: ::dxrt::W({w}), f2: ::dxrt::Lt(::core::marker::PhantomData) }}") if style == "named" \
            else (lambda a, w: f"Ty(::dxrt::Term::new(\"{a}\"), ::dxrt::W({w}), ::dxrt::Lt(::core::marker::PhantomData))")
        acc = ("x.f0.0.clone()", "x.f1.0") if style == "named" else ("x.0.0.clone()", "x.1.0")
        code = f"""#[derive(::derive_ex::Ex)]
#[derive_ex({ops})]
pub struct Ty<'l, T, const N: ::core::primitive::usize> {body}
fn dump(x: &Ty<'static, ::dxrt::Term, 2>) -> ::std::string::String {{ format!("{{}}|{{}}", {acc[0]}, {acc[1]}) }}
pub fn run() {{
    {{ let r = {mk('a', 3)} + {mk('b', 4)}; ::dxrt::ev!("op", "o" => "add_vv", "r" => dump(&r)); }}
    {{ let a = {mk('a', 3)}; let b = {mk('b', 4)}; let r = &a + &b; ::dxrt::ev!("op", "o" => "add_rr", "r" => dump(&r), "a" => dump(&a)); }}
    {{ let a = {mk('a', 3)}; let b = {mk('b', 4)}; let r = a << &b; ::dxrt::ev!("op", "o" => "shl_vr", "r" => dump(&r)); }}
    {{ let mut a = {mk('a', 9)}; a -= {mk('b', 4)}; ::dxrt::ev!("op", "o" => "sub_assign", "r" => dump(&a)); }}
    {{ let mut a = {mk('a', 9)}; let b = {mk('b', 5)}; a ^= &b; ::dxrt::ev!("op", "o" => "xor_assign_r", "r" => dump(&a)); }}
    {{ let a = {mk('a', 3)}; let r = -&a; let q = !a; ::dxrt::ev!("op", "o" => "neg_not", "r" => dump(&r), "q" => dump(&q)); }}
}}"""
        out.append({"src": "ops", "traits": ops.split(", "), "code": code})
    for s in [x for x in p_c07.core(None) if x["kind"] == "enum" and not x.get("copy") and not x.get("names")][-2:]:
        out.append({"src": "clone", "traits": ["Clone"], "code": p_c07.render(s)})
    out.append({"src": "debug", "traits": ["Debug"], "code": p_c10.render(p_c10.core()[-1])})
    rng = random.Random(5)
    for _ in range(200):
        s = p_c11.gen_spec(rng)
        if p_c11.usable(s) and s["kind"] == "enum" and len(s["variants"]) >= 2 and sum(len(v["fields"]) for v in s["variants"]) >= 3 and not s["type_level"]:
            out.append({"src": "default", "traits": ["Default"], "code": p_c11.render(s)[0]})
            break
    # operators derived from user impls (the operand types play the `type` role)
    for spec in ({"op": "Add", "base": "assign", "lref": False, "rref": False, "other": True, "req": ["Op"], "shape": "plain", "omit_rhs": False},
                 {"op": "Sub", "base": "assign", "lref": False, "rref": True, "other": False, "req": ["Op"], "shape": "generic", "omit_rhs": False},
                 {"op": "Shl", "base": "binary", "lref": False, "rref": False, "other": True, "req": ["Op", "OpAssign"], "shape": "generic", "omit_rhs": False},
                 {"op": "Mul", "base": "binary", "lref": True, "rref": True, "other": False, "req": ["Op", "OpAssign"], "shape": "plain", "omit_rhs": False},
                 {"op": "BitXor", "base": "binary", "lref": True, "rref": False, "other": True, "req": ["OpAssign"], "shape": "plain", "omit_rhs": False}):
        code = p_c09.render(spec)
        code = re.sub(r"\bA\b", "Ty", code)
        code = re.sub(r"\bO\b", "Ty2", code)
        out.append({"src": "implops", "traits": [spec["op"]], "code": code})
    for code, meta in p_c18.accept_cases():
        if meta["field"] == "&'a [T]" and meta["traits"] == "Deref, DerefMut":
            out.append({"src": "deref", "traits": ["Deref", "DerefMut"], "code": code.replace("'a", "'l").replace("inner", "f0")})
    return out
