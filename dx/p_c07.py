"""C07 — clone is field-wise; clone_from leaves target equal to a clone of the source (E-run, call traces)."""
import json

from . import common as C

FLOOR = {"quick": 5000, "thorough": 50000}
NRANDOM = {"quick": 600, "thorough": 5000}
HEADER = "#![allow(warnings)]"
REC = "::dxrt::Rec"

# field type kinds: how to build a value from (tag, seed) and how to dump it
FK = {
    "rec": (REC, lambda tag, s: f"{REC}::new({tag}, {s})"),
    "vec": (f"::std::vec::Vec<{REC}>", lambda tag, s: "vec![" + ", ".join(f"{REC}::new({tag}, {s * 10 + k})" for k in range(s % 3)) + "]"),
    "opt": (f"::core::option::Option<{REC}>", lambda tag, s: f"::core::option::Option::Some({REC}::new({tag}, {s}))" if s % 2 else "::core::option::Option::None"),
    "box": (f"::std::boxed::Box<{REC}>", lambda tag, s: f"::std::boxed::Box::new({REC}::new({tag}, {s}))"),
    "pair": (f"({REC}, {REC})", lambda tag, s: f"({REC}::new({tag}, {s}), {REC}::new({tag}, {s + 500}))"),
    # Copy types with a hand-written, call-recording Clone (used when the type derives Copy as well)
    "recc": ("::dxrt::RecC", lambda tag, s: f"::dxrt::RecC::new({tag}, {s})"),
    "paircc": ("(::dxrt::RecC, u8)", lambda tag, s: f"(::dxrt::RecC::new({tag}, {s}), {s % 100}u8)"),
    "optc": ("::core::option::Option<::dxrt::RecC>", lambda tag, s: f"::core::option::Option::Some(::dxrt::RecC::new({tag}, {s}))" if s % 2 else "::core::option::Option::None"),
    # inherent fns clone() / clone_from() that do something else than the Clone impl
    "sh": ("::dxrt::Sh", lambda tag, s: f"::dxrt::Sh({s % 100})"),
    "T": ("T", lambda tag, s: f"{REC}::new({tag}, {s})"),
    "vecT": ("::std::vec::Vec<T>", lambda tag, s: "vec![" + ", ".join(f"{REC}::new({tag}, {s * 10 + k})" for k in range(1 + s % 2)) + "]"),
    "u8": ("u8", lambda tag, s: f"{s % 200}u8"),
    "string": ("::std::string::String", lambda tag, s: f'::std::string::String::from("s{s}")'),
}


REV_NAMES = ["zf", "yf", "xf", "wf", "vf", "uf", "tf", "sf", "rf", "qf", "pf", "of"]


def fname(spec, i):
    """f0, f1, .. or - spec["names"] == "rev" - names whose sorted order is the reverse of the declaration order."""
    return REV_NAMES[i] if spec.get("names") == "rev" else f"f{i}"


def concrete(kind):
    return FK[kind][0].replace("<T>", f"<{REC}>") if FK[kind][0] != "T" else REC


def gen_spec(rng, kind=None):
    kind = kind or rng.choice(["struct", "enum", "enum"])
    generic = rng.random() < 0.3
    # Copy derived next to Clone (either order): `clone` must still be field-wise
    copy = rng.choice(["before", "after"]) if rng.random() < 0.2 else None
    pool = ["rec", "rec", "vec", "opt", "box", "pair", "u8", "string", "sh"] + (["T", "vecT"] if generic else [])
    if copy:
        pool = ["recc", "recc", "paircc", "optc", "u8"] + (["T"] if generic else [])
    nv = 1 if kind == "struct" else rng.randint(1, 4)
    variants = []
    tag = 0
    for vi in range(nv):
        style = rng.choice(["named", "tuple", "unit"])
        nf = 0 if style == "unit" else rng.randint(0 if kind == "enum" else 1, 4)
        fs = []
        for _ in range(nf):
            fs.append({"kind": rng.choice(pool), "tag": tag})
            tag += 1
        variants.append({"style": style, "fields": fs})
    generic = any(f["kind"] in ("T", "vecT") for v in variants for f in v["fields"])
    # values: two per variant with fields, one per unit variant
    vals = []
    for vi, v in enumerate(variants):
        for r in range(2 if v["fields"] else 1):
            vals.append((vi, len(vals) + 1))
    # how it is written must not matter: Debug co-derived with #[debug(ignore)] on cloned fields, the list split over two
    # attributes, an explicit `bound(..)` that keeps the defaults
    co = rng.choice([None, None, None, "Debug-first", "Debug-last"])
    if co:
        for v in variants:
            for f in v["fields"]:
                f["dbg_ignore"] = rng.random() < 0.5
    return {"kind": kind, "variants": variants, "generic": generic, "vals": vals, "entry": rng.choice(["attr", "derive"]), "copy": copy,
            "co": co, "split": rng.random() < 0.2, "bound": rng.choice([False] * 10 + [True, True, "stop", "stop-shared"]),
            "names": rng.choice(["f", "f", "rev"]), "fattr": rng.randrange(3) if rng.random() < 0.2 else None}


def type_text(spec, control=False):
    g = "<T>" if spec["generic"] else ""
    tl = {None: "Clone", "before": "Copy, Clone", "after": "Clone, Copy"}[spec.get("copy")]
    if spec.get("bound") == "stop":
        # an explicit list without `..` (the default field bounds are off; nothing else may change)
        tl = tl.replace("Clone", "Clone(bound(T: ::core::clone::Clone))" if spec["generic"] else "Clone(bound())")
    elif spec.get("bound") == "stop-shared" and spec.get("copy"):
        tl = tl.replace("Clone", "Clone(bound(T: ::core::clone::Clone))" if spec["generic"] else "Clone(bound())")
    elif spec.get("bound") == "stop-shared":
        pass        # appended below, after every trait of the list
    elif spec.get("bound"):
        tl = tl.replace("Clone", "Clone(bound(..))")
    if spec.get("co") == "Debug-first":
        tl = "Debug, " + tl
    elif spec.get("co"):
        tl = tl + ", Debug"
    parts = [tl]
    if spec.get("bound") == "stop-shared" and not spec.get("copy"):
        parts = [tl + (", bound(T: ::core::clone::Clone + ::core::fmt::Debug)" if spec["generic"] else ", bound()")]
    elif spec.get("split") and ", " in tl:
        a, b = tl.split(", ", 1)
        parts = [a, b]
    if spec["entry"] == "attr":
        head = f"#[::derive_ex::derive_ex({parts[0]})]\n" + "".join(f"#[derive_ex({x})]\n" for x in parts[1:])
    else:
        head = "#[derive(::derive_ex::Ex)]\n" + "".join(f"#[derive_ex({x})]\n" for x in parts)
    if control:
        head = "#[derive(Clone)]\n"
    bodies = []
    for v in spec["variants"]:
        parts = []
        nf = len(v["fields"])
        # a field-level `#[derive_ex(Clone(bound(..)))]` (keeps the defaults) on a field that is not the first one
        fk = (1 + spec["fattr"] % (nf - 1)) if (spec.get("fattr") is not None and nf >= 2) else None
        for i, f in enumerate(v["fields"]):
            a = ""
            if not control:
                if spec.get("co") and f.get("dbg_ignore"):
                    a += "#[debug(ignore)] "
                if i == fk:
                    a += "#[derive_ex(Clone(bound(..)))] "
            ty = FK[f["kind"]][0]
            parts.append(f"{a}{fname(spec, i)}: {ty}" if v["style"] == "named" else f"{a}{ty}")
        if v["style"] == "named":
            bodies.append("{ " + ", ".join(parts) + " }")
        elif v["style"] == "tuple":
            bodies.append("(" + ", ".join(parts) + ")")
        else:
            bodies.append("")
    if spec["kind"] == "struct":
        b = bodies[0]
        return head + (f"pub struct Ty{g} {b}" if spec["variants"][0]["style"] == "named" else f"pub struct Ty{g}{b};")
    return head + f"pub enum Ty{g} {{ " + ", ".join(f"V{i}{b}" for i, b in enumerate(bodies)) + " }"


def fval(f, seed):
    return FK[f["kind"]][1](f["tag"], seed * 7 + f["tag"])


def ctor(spec, vi, seed):
    v = spec["variants"][vi]
    head = "Ty" if spec["kind"] == "struct" else f"Ty::V{vi}"
    vals = [fval(f, seed) for f in v["fields"]]
    if v["style"] == "named":
        return head + " { " + ", ".join(f"{fname(spec, i)}: {x}" for i, x in enumerate(vals)) + " }"
    if v["style"] == "tuple":
        return head + "(" + ", ".join(vals) + ")"
    return head


def dump_fn(spec):
    inst = f"Ty<{REC}>" if spec["generic"] else "Ty"
    arms = []
    for vi, v in enumerate(spec["variants"]):
        head = "Ty" if spec["kind"] == "struct" else f"Ty::V{vi}"
        names = [f"x{i}" for i in range(len(v["fields"]))]
        if v["style"] == "named":
            pat = head + " { " + ", ".join(f"{fname(spec, i)}: {n}" for i, n in enumerate(names)) + " }"
        elif v["style"] == "tuple":
            pat = head + "(" + ", ".join(names) + ")"
        else:
            pat = head
        arms.append(f'{pat} => format!("v{vi}[{";".join("{:?}" for _ in names)}]", {", ".join(names)}),'.replace(", )", ")"))
    return f"fn dump(x: &{inst}) -> ::std::string::String {{ match x {{ {' '.join(arms)} }} }}"


def render(spec, control=False):
    inst = f"Ty<{REC}>" if spec["generic"] else "Ty"
    out = [type_text(spec, control), dump_fn(spec), "pub fn run() {"]
    # reference traces at field level (hand-written calls of the field type's own Clone)
    for (vi, seed) in spec["vals"]:
        for fi, f in enumerate(spec["variants"][vi]["fields"]):
            ty = concrete(f["kind"])
            out.append(f'{{ let a: {ty} = {fval(f, seed)}; let _ = ::dxrt::take_trace(); let b = <{ty} as ::core::clone::Clone>::clone(&a); let t = ::dxrt::take_trace(); ::dxrt::ev!("ref_clone", "v" => {seed}, "f" => {fi}, "t" => t); drop(b); let _ = ::dxrt::take_trace(); drop(a); let t = ::dxrt::take_trace(); ::dxrt::ev!("ref_drop", "v" => {seed}, "f" => {fi}, "t" => t); }}')
    for (vi, si) in spec["vals"]:
        for (vj, sj) in spec["vals"]:
            if vi != vj:
                continue
            for fi, f in enumerate(spec["variants"][vi]["fields"]):
                ty = concrete(f["kind"])
                out.append(f'{{ let mut a: {ty} = {fval(f, si)}; let b: {ty} = {fval(f, sj)}; let _ = ::dxrt::take_trace(); <{ty} as ::core::clone::Clone>::clone_from(&mut a, &b); let t = ::dxrt::take_trace(); ::dxrt::ev!("ref_clone_from", "i" => {si}, "j" => {sj}, "f" => {fi}, "t" => t); }}')
    out.append("let _ = ::dxrt::take_trace(); let live0 = ::dxrt::live();")
    # observed: clone of every value, clone_from over all ordered pairs
    for (vi, seed) in spec["vals"]:
        out.append(f'{{ let x: {inst} = {ctor(spec, vi, seed)}; let _ = ::dxrt::take_trace(); let y = ::core::clone::Clone::clone(&x); let t = ::dxrt::take_trace(); ::dxrt::ev!("clone", "v" => {seed}, "t" => t, "dx" => dump(&x), "dy" => dump(&y)); }}')
    for (vi, si) in spec["vals"]:
        for (vj, sj) in spec["vals"]:
            out.append(f'{{ let mut a: {inst} = {ctor(spec, vi, si)}; let b: {inst} = {ctor(spec, vj, sj)}; let db0 = dump(&b); let _ = ::dxrt::take_trace(); ::core::clone::Clone::clone_from(&mut a, &b); let t = ::dxrt::take_trace(); ::dxrt::ev!("clone_from", "i" => {si}, "j" => {sj}, "t" => t, "da" => dump(&a), "db" => dump(&b), "db0" => db0); }}')
    out.append('let _ = ::dxrt::take_trace(); let live1 = ::dxrt::live(); ::dxrt::ev!("live", "constructed" => (live1.0 - live0.0) as i64, "dropped" => (live1.1 - live0.1) as i64);')
    out.append("}")
    return "\n".join(out)


def check_case(spec, events):
    ref_clone, ref_drop, ref_cf = {}, {}, {}
    for e in events:
        if e.get("k") == "ref_clone":
            ref_clone[(e["v"], e["f"])] = e["t"]
        elif e.get("k") == "ref_drop":
            ref_drop[(e["v"], e["f"])] = e["t"]
        elif e.get("k") == "ref_clone_from":
            ref_cf[(e["i"], e["j"], e["f"])] = e["t"]
    var_of = {s: vi for vi, s in spec["vals"]}
    bad = []
    n_clone = n_cf = 0
    for e in events:
        if e.get("k") == "clone":
            n_clone += 1
            v = e["v"]
            nf = len(spec["variants"][var_of[v]]["fields"])
            exp = [x for fi in range(nf) for x in ref_clone[(v, fi)]]
            if e["t"] != exp:
                bad.append(("clone-trace", exp, e["t"]))
            if e["dx"] != e["dy"]:
                bad.append(("clone-result", e["dx"], e["dy"]))
        elif e.get("k") == "clone_from":
            n_cf += 1
            i, j = e["i"], e["j"]
            vi, vj = var_of[i], var_of[j]
            if e["da"] != e["db"]:
                bad.append(("clone_from-target-not-equal-to-source", e["db"], e["da"]))
            if e["db"] != e["db0"]:
                bad.append(("clone_from-source-changed", e["db0"], e["db"]))
            if vi == vj:
                nf = len(spec["variants"][vi]["fields"])
                exp = [x for fi in range(nf) for x in ref_cf[(i, j, fi)]]
                if e["t"] != exp:
                    bad.append(("clone_from-same-variant-trace", exp, e["t"]))
            else:
                nfj = len(spec["variants"][vj]["fields"])
                nfi = len(spec["variants"][vi]["fields"])
                exp_clones = [x for fi in range(nfj) for x in ref_clone[(j, fi)]]
                exp_drops = sorted(x for fi in range(nfi) for x in ref_drop[(i, fi)])
                t = e["t"]
                clones = [x for x in t if not x.startswith("drop")]
                drops = sorted(x for x in t if x.startswith("drop"))
                if clones != exp_clones:
                    bad.append(("clone_from-other-variant-clones", exp_clones, clones))
                if drops != exp_drops:
                    bad.append(("clone_from-other-variant-drops", exp_drops, drops))
    lv = next((e for e in events if e.get("k") == "live"), None)
    if lv is None:
        bad.append(("no-live-counter", "", ""))
    elif lv["constructed"] != lv["dropped"]:
        bad.append(("conservation", f"constructed {lv['constructed']}", f"dropped {lv['dropped']}"))
    nv = len(spec["vals"])
    if n_clone != nv or n_cf != nv * nv:
        bad.append(("missing-observations", f"{nv}+{nv*nv}", f"{n_clone}+{n_cf}"))
    return bad


def core(rng):
    specs = []
    # every struct kind and arity with Rec fields; enums mixing all variant kinds
    k = 0
    for style in ("named", "tuple"):
        for n in (1, 2, 3, 4):
            k += 1
            specs.append({"kind": "struct", "generic": False, "entry": "attr" if k % 2 else "derive",
                          "variants": [{"style": style, "fields": [{"kind": "rec", "tag": i} for i in range(n)]}], "vals": [(0, 1), (0, 2)]})
    specs.append({"kind": "struct", "generic": False, "entry": "attr", "variants": [{"style": "unit", "fields": []}], "vals": [(0, 1)]})
    specs.append({"kind": "enum", "generic": False, "entry": "derive", "variants": [
        {"style": "unit", "fields": []}, {"style": "tuple", "fields": [{"kind": "rec", "tag": 0}]},
        {"style": "named", "fields": [{"kind": "rec", "tag": 1}, {"kind": "vec", "tag": 2}, {"kind": "rec", "tag": 3}]},
        {"style": "tuple", "fields": [{"kind": "opt", "tag": 4}, {"kind": "rec", "tag": 5}]}],
        "vals": [(0, 1), (1, 2), (1, 3), (2, 4), (2, 5), (3, 6), (3, 7)]})
    specs.append({"kind": "enum", "generic": True, "entry": "attr", "variants": [
        {"style": "tuple", "fields": [{"kind": "T", "tag": 0}]}, {"style": "named", "fields": [{"kind": "vecT", "tag": 1}, {"kind": "T", "tag": 2}]}],
        "vals": [(0, 1), (0, 2), (1, 3), (1, 4)]})
    # Copy listed before / after Clone, struct and enum, concrete and generic
    for copy in ("before", "after"):
        for entry in ("attr", "derive"):
            specs.append({"kind": "struct", "generic": False, "entry": entry, "copy": copy,
                          "variants": [{"style": "tuple", "fields": [{"kind": "recc", "tag": 0}, {"kind": "u8", "tag": 1}, {"kind": "recc", "tag": 2}]}], "vals": [(0, 1), (0, 2)]})
            specs.append({"kind": "enum", "generic": False, "entry": entry, "copy": copy, "variants": [
                {"style": "unit", "fields": []}, {"style": "named", "fields": [{"kind": "recc", "tag": 0}, {"kind": "optc", "tag": 1}]},
                {"style": "tuple", "fields": [{"kind": "paircc", "tag": 2}]}], "vals": [(0, 1), (1, 2), (1, 3), (2, 4), (2, 5)]})
            specs.append({"kind": "struct", "generic": True, "entry": entry, "copy": copy,
                          "variants": [{"style": "named", "fields": [{"kind": "T", "tag": 0}, {"kind": "recc", "tag": 1}]}], "vals": [(0, 1), (0, 2)]})
    # field names in reverse-sorted order; a field-level attribute on a non-first field (same-typed neighbours, distinct values)
    for style in ("named", "tuple"):
        for fattr in (None, 0, 1):
            specs.append({"kind": "struct", "generic": False, "entry": "attr" if fattr else "derive", "names": "rev", "fattr": fattr,
                          "variants": [{"style": style, "fields": [{"kind": "rec", "tag": i} for i in range(3)]}], "vals": [(0, 1), (0, 2)]})
            specs.append({"kind": "enum", "generic": False, "entry": "derive" if fattr else "attr", "names": "rev", "fattr": fattr, "variants": [
                {"style": "unit", "fields": []}, {"style": style, "fields": [{"kind": "rec", "tag": i} for i in range(3)]}], "vals": [(0, 1), (1, 2), (1, 3)]})
    # explicit bound lists without `..` (per trait / shared), concrete and generic, struct and enum with every pair of values
    for b in ("stop", "stop-shared"):
        for entry in ("attr", "derive"):
            specs.append({"kind": "struct", "generic": False, "entry": entry, "bound": b,
                          "variants": [{"style": "named", "fields": [{"kind": "rec", "tag": i} for i in range(3)]}], "vals": [(0, 1), (0, 2)]})
            specs.append({"kind": "enum", "generic": False, "entry": entry, "bound": b, "variants": [
                {"style": "unit", "fields": []}, {"style": "tuple", "fields": [{"kind": "rec", "tag": 0}, {"kind": "vec", "tag": 1}, {"kind": "rec", "tag": 2}]},
                {"style": "named", "fields": [{"kind": "rec", "tag": 3}]}], "vals": [(0, 1), (1, 2), (1, 3), (2, 4), (2, 5)]})
            specs.append({"kind": "enum", "generic": True, "entry": entry, "bound": b, "variants": [
                {"style": "tuple", "fields": [{"kind": "T", "tag": 0}]}, {"style": "named", "fields": [{"kind": "vecT", "tag": 1}, {"kind": "T", "tag": 2}]}],
                "vals": [(0, 1), (0, 2), (1, 3), (1, 4)]})
    # more than ten fields (member names / indices whose text order differs from the declaration order)
    for style in ("tuple", "named"):
        specs.append({"kind": "struct", "generic": False, "entry": "attr", "variants": [{"style": style, "fields": [{"kind": "rec", "tag": i} for i in range(12)]}],
                      "vals": [(0, 1), (0, 2)]})
    return specs


def run(rep, tier, rng):
    specs = core(rng)
    while len(specs) < NRANDOM[tier]:
        specs.append(gen_spec(rng))
    cases = [C.Case(f"c{i}", render(s), {"spec": s}) for i, s in enumerate(specs)]
    ctls = [C.Case(f"k{i}", render(s, control=True), {}) for i, s in enumerate(specs)]
    _, notes = C.run_cases(cases + ctls, "c07", header=HEADER, batch_size=30)
    ctl_ok = {c.name[1:]: c.status == "ok" for c in ctls}
    rep.count("controls_compiled", sum(ctl_ok.values()))
    rep.count("controls_rejected", sum(1 for v in ctl_ok.values() if not v))
    for n in notes:
        rep.inconcl(n)
    sigs = {}
    for c in cases:
        s = c.meta["spec"]
        if c.status == "inconclusive":
            continue
        if c.status == "compile_fail":
            who, d0 = C.blame(c)
            if who == "harness" and not ctl_ok.get(c.name[1:]):
                rep.inconcl(f"generated program does not compile and neither does its std-derive control: {str(d0['message'])[:150]}")
                continue
            msg, code = d0["message"] or "", str(d0["code"])
            sigs.setdefault(f"C07|compile_fail|{code}|{msg[:50]}", []).append((c, f"does not compile: {msg[:200]}"))
            continue
        if any(e.get("k") == "panic" for e in c.events):
            sigs.setdefault("C07|panic", []).append((c, "panic"))
            continue
        rep.count("types_run")
        try:
            bad = check_case(s, c.events)
        except KeyError as e:
            rep.inconcl(f"log incomplete: {e}")
            continue
        nv = len(s["vals"])
        rep.evaluations += nv + nv * nv
        rep.count("clone_calls_observed", nv)
        rep.count("clone_from_pairs_observed", nv * nv)
        rep.count("clone_from_cross_variant_pairs", sum(1 for a in s["vals"] for b in s["vals"] if a[0] != b[0]))
        rep.nontrivial.add((s["kind"], tuple((v["style"], tuple(f["kind"] for f in v["fields"])) for v in s["variants"])))
        for b in bad:
            sigs.setdefault(f"C07|{b[0]}|{s['kind']}", []).append((c, f"{b[0]}: expected {str(b[1])[:300]} observed {str(b[2])[:300]}"))
    for sig, lst in list(sigs.items())[:20]:
        c, what = lst[0]
        again = C.compile_single(c.code, header=HEADER)
        if (again.status == "compile_fail" and "compile_fail" in sig) or (again.status == "ok" and (check_case(c.meta["spec"], again.events) or any(e.get("k") == "panic" for e in again.events))):
            rep.violation(sig, f"{what}\n{chr(10).join(c.code.splitlines()[:3])[:400]} [{len(lst)} cases]", {"spec": c.meta["spec"], "code": c.code})
        else:
            rep.inconcl(f"did not reproduce in isolation: {sig}")
    c = cases[9]
    rep.sample({"source": "\n".join(c.code.splitlines()[:3]), "clone_event": next((e for e in c.events if e.get("k") == "clone"), None),
                "cross_variant_clone_from": next((e for e in c.events if e.get("k") == "clone_from" and e["da"][:2] != e["db0"][:2]), None) or
                next((e for e in c.events if e.get("k") == "clone_from"), None)})
    # canary: dropping one clone_from event from a real trace must be flagged
    ok = next(c for c in cases if c.status == "ok" and c.meta["spec"]["kind"] == "struct" and len(c.meta["spec"]["variants"][0]["fields"]) >= 2)
    ev = json.loads(json.dumps(ok.events))
    for e in ev:
        if e.get("k") == "clone_from" and e["t"]:
            e["t"] = e["t"][1:]
            break
    rep.canary = any(b[0].startswith("clone_from") for b in check_case(ok.meta["spec"], ev))
    rep.rule = ("structs/enums (all variant kinds, 0-4 fields, generic and concrete) whose fields are call-recording types (Rec, "
                "Vec<Rec>, Option<Rec>, Box<Rec>, (Rec,Rec), T, Vec<T>) mixed with plain ones, 12-field structs, and types deriving "
                "Copy next to Clone (both orders) over Copy field types with a recording Clone (RecC); clone of every value and clone_from "
                "over ALL ordered pairs of values incl. every pair of distinct variants; the recorded clone/clone_from/drop trace "
                "is compared with the concatenation of reference traces of the field types' own Clone calls (hand-written), the "
                "result dumps with the source, and constructed == dropped is checked at the end. evaluations = clone + "
                "clone_from calls observed.")


def replay(rep, path):
    j = json.load(open(path))["replay"]
    s = j["spec"]
    s["vals"] = [tuple(x) for x in s["vals"]]
    c = C.compile_single(j["code"], header=HEADER)
    if c.status == "compile_fail" or (c.status == "ok" and check_case(s, c.events)):
        print(f"VIOLATION property=C07 replay={path}")
        return 1
    print("replay: no violation")
    return 0
