"""C11 — default() returns the documented value (E-run + E-exp refusals)."""
import json

from . import common as C

FLOOR = {"quick": 1000, "thorough": 6000}
NRANDOM = {"quick": 1200, "thorough": 8000}
HEADER = "#![allow(warnings)]"
CONV = "::dxrt::Conv"


def conv(val, via):
    return f'{CONV} {{ val: ::std::string::String::from("{val}"), via: "{via}" }}'


# (field type, default expression or None, expected value expression, tag)
OPTS = [
    ("u8", None, "0u8", "none"),
    ("u8", "5", "5u8", "int-lit"),
    ("i8", "-1", "-1i8", "neg-lit"),
    ("bool", "true", "true", "bool-lit"),
    ("char", "'x'", "'x'", "char-lit"),
    ("f32", "1.5", "1.5f32", "float-lit"),
    ("::std::string::String", "\"abc\"", "::std::string::String::from(\"abc\")", "str-lit-into"),
    ("::std::string::String", None, "::std::string::String::new()", "none"),
    (CONV, "\"abc\"", conv("abc", "from_str"), "str-lit-into"),
    (CONV, "::dxrt::SRC7", conv("src7", "from_src"), "path-into"),
    (CONV, "::dxrt::CONV_K", conv("", "const"), "path-into-identity"),
    (CONV, "::dxrt::Color::Green", conv("Green", "from_color"), "variant-path-into"),
    (CONV, "::dxrt::conv_call()", conv("call", "direct"), "call"),
    (CONV, "{ ::dxrt::Conv::direct(\"blk\") }", conv("blk", "direct"), "block"),
    (CONV, "_", conv("", "default"), "underscore"),
    (CONV, None, conv("", "default"), "none"),
    ("u8", "u8::MAX", "255u8", "assoc-const-path"),
    ("u16", "<u16>::MIN", "0u16", "qself-path"),
    ("::core::option::Option<u8>", "Some(3)", "::core::option::Option::Some(3u8)", "call"),
    ("::std::vec::Vec<u8>", "vec![1, 2]", "vec![1u8, 2u8]", "macro"),
    ("::dxrt::Color", "::dxrt::Color::Green", "::dxrt::Color::Green", "variant-path-into-identity"),
    ("::dxrt::Color", None, "::dxrt::Color::Red", "none"),
    ("(u8, bool)", "(1, true)", "(1u8, true)", "tuple"),
    ("u8", "if true { 2 } else { 3 }", "2u8", "if-expr"),
    ("u32", "K32", "77u32", "const-path-into"),
    # a conversion that exists as `Into` only; an expression calling an item named like a field of the same type
    (CONV, "::dxrt::INTO_ONLY", conv("io4", "into_only"), "path-into"),
    ("u32", "f0()", "41u32", "call"),
    ("u32", "f1() + 1", "43u32", "call"),
    # a field type with an inherent associated fn `default()` that differs from its Default impl
    ("::dxrt::Inh", None, "::dxrt::Inh(1)", "none"),
    ("::dxrt::Inh", "_", "::dxrt::Inh(1)", "underscore"),
    ("::dxrt::Inh", "K32", "::dxrt::Inh(77)", "const-path-into"),
]
# expressions for which NO conversion may be inserted: the program must be rejected by rustc
NEG = [
    (CONV, "::dxrt::src_call()", "call returning a convertible type"),
    (CONV, "::dxrt::str_call()", "call returning &str"),
    ("::std::string::String", "::dxrt::str_call()", "call returning &str on String"),
    (CONV, "{ \"x\" }", "block around a string literal"),
    (CONV, "(\"x\")", "parenthesized string literal"),
    (CONV, "(::dxrt::SRC7)", "parenthesized path"),
    ("::std::string::String", "&\"x\"", "reference to a literal"),
]
BOUNDS = ["", ", bound()", ", bound(..)", ", bound(u8)", ", bound(u8: Copy, ..)"]


def gen_fields(rng, n=None):
    # occasionally more than ten fields: member names / tuple indices whose text order differs from the declaration order
    n = (rng.choice([11, 12, 13]) if rng.random() < 0.06 else rng.randint(0, 4)) if n is None else n
    fs = []
    for _ in range(n):
        ty, ex, exp, tag = rng.choice(OPTS)
        b = rng.choice(BOUNDS) if ex is not None and rng.random() < 0.3 else ""
        fs.append({"ty": ty, "expr": ex, "exp": exp, "tag": tag, "bound": b})
    return fs


def gen_spec(rng):
    kind = rng.choice(["struct", "enum", "enum"])
    if kind == "struct":
        style = rng.choice(["named", "tuple", "unit"])
        variants = [{"style": style, "fields": [] if style == "unit" else gen_fields(rng)}]
        dv, marker = 0, None
    else:
        nv = rng.randint(1, 4)
        variants = []
        for _ in range(nv):
            style = rng.choice(["named", "tuple", "unit"])
            variants.append({"style": style, "fields": [] if style == "unit" else gen_fields(rng, rng.randint(0, 3))})
        dv = rng.randrange(nv)
        marker = rng.choice(["#[default]", "#[default(_)]", "#[default(_, bound(..))]", "#[default(_, bound())]"])
        if nv == 1 and rng.random() < 0.5:
            marker = None
    tl = None
    r = rng.random()
    if r < 0.12:
        tl = "make"
    elif r < 0.2:
        tl = "const"
    elif r < 0.25:
        tl = "underscore"
    # PartialEq co-derived (before / after Default, same or separate attribute) with #[eq(ignore)] / #[partial_eq(ignore)] on
    # fields: their defaults are what they are without it
    co = rng.choice([None, None, None, "first", "last", "split"])
    if co:
        for v in variants:
            for f in v["fields"]:
                f["eq_ignore"] = rng.choice([None, None, "eq", "partial_eq"])
    return {"kind": kind, "variants": variants, "dv": dv, "marker": marker, "type_level": tl, "entry": rng.choice(["attr", "derive"]), "co": co}


def body_text(v, with_attrs, co=None):
    fs = []
    for i, f in enumerate(v["fields"]):
        a = f"#[default({f['expr']}{f['bound']})] " if (with_attrs and f["expr"] is not None) else ""
        if a and with_attrs and co in ("first", "split"):
            a = '#[doc = "d"] ' + a
        if with_attrs and co and f.get("eq_ignore"):
            a = (f"#[{f['eq_ignore']}(ignore)] " + a) if i % 2 else (a + f"#[{f['eq_ignore']}(ignore)] ")
        fs.append(f"{a}f{i}: {f['ty']}" if v["style"] == "named" else f"{a}{f['ty']}")
    if v["style"] == "named":
        return "{ " + ", ".join(fs) + " }"
    if v["style"] == "tuple":
        return "(" + ", ".join(fs) + ")"
    return ""


def ctor(spec, vi, vals):
    v = spec["variants"][vi]
    head = "Ty" if spec["kind"] == "struct" else f"Ty::V{vi}"
    if v["style"] == "named":
        return head + " { " + ", ".join(f"f{i}: {x}" for i, x in enumerate(vals)) + " }"
    if v["style"] == "tuple":
        return head + "(" + ", ".join(vals) + ")"
    return head


def render(spec, with_dx=True):
    co = spec.get("co")
    lists = {None: ["Default"], "first": ["PartialEq, Default"], "last": ["Default, PartialEq"], "split": ["Default", "PartialEq"]}[co]
    if spec["entry"] == "attr":
        head = f"#[::derive_ex::derive_ex({lists[0]})]\n" + "".join(f"#[derive_ex({x})]\n" for x in lists[1:])
    else:
        head = "#[derive(::derive_ex::Ex)]\n" + "".join(f"#[derive_ex({x})]\n" for x in lists)
    tl = {"make": "#[default(Ty::make())]\n", "const": "#[default(Self::K)]\n", "underscore": "#[default(_)]\n", None: ""}[spec["type_level"]]
    if not with_dx:
        head, tl = "", ""
    if spec["kind"] == "struct":
        b = body_text(spec["variants"][0], with_dx, co)
        item = f"pub struct Ty {b}" if spec["variants"][0]["style"] == "named" else f"pub struct Ty{b};"
    else:
        vs = []
        for i, v in enumerate(spec["variants"]):
            m = (spec["marker"] + " ") if (with_dx and i == spec["dv"] and spec["marker"]) else ""
            vs.append(f"{m}V{i}{body_text(v, with_dx, co)}")
        item = "pub enum Ty { " + ", ".join(vs) + " }"
    # the special value used by the type-level forms: last variant / all fields from a fixed alternative list
    sv = len(spec["variants"]) - 1
    alt = [altval(f) for f in spec["variants"][sv]["fields"]]
    special = ctor(spec, sv, alt)
    expected = special if spec["type_level"] in ("make", "const") else ctor(spec, spec["dv"], [f["exp"] for f in spec["variants"][spec["dv"]]["fields"]])
    kdef = f" pub const K: Ty = {special_const(spec, sv)};" if all(const_ok(f) for f in spec["variants"][sv]["fields"]) else ""
    extra = f"impl Ty {{ pub fn make() -> Ty {{ {special} }}{kdef} }}"
    return "\n".join([
        "pub const K32: u32 = 77; pub fn f0() -> u32 { 41 } pub fn f1() -> u32 { 42 }",
        "#[derive(Debug)]", head + tl + item, extra,
        "pub fn run() {",
        (f'  let got = <Ty as ::core::default::Default>::default(); let want: Ty = {expected};' if with_dx else
         f'  let want: Ty = {expected}; let got: Ty = {expected}; ' + user_exprs(spec)),
        '  ::dxrt::ev!("default", "got" => format!("{:?}", got), "want" => format!("{:?}", want));',
        "}"]), expected


def user_exprs(spec):
    """Control: the user-written default expressions, converted the documented way, in hand-written context."""
    out = []
    for v in spec["variants"]:
        for f in v["fields"]:
            if f["expr"] not in (None, "_"):
                conv_ = f["tag"] in ("str-lit-into", "path-into", "path-into-identity", "variant-path-into", "variant-path-into-identity",
                                     "assoc-const-path", "qself-path", "const-path-into")
                e = f"::core::convert::Into::<{f['ty']}>::into({f['expr']})" if conv_ else f["expr"]
                out.append(f"{{ let _x: {f['ty']} = {e}; }}")
    return " ".join(out)


def altval(f):
    ty = f["ty"]
    return {"u8": "9u8", "i8": "9i8", "bool": "false", "char": "'q'", "f32": "9.0f32", "::std::string::String": "::std::string::String::new()",
            CONV: conv("alt", "direct"), "u16": "9u16", "::core::option::Option<u8>": "::core::option::Option::None",
            "::std::vec::Vec<u8>": "::std::vec::Vec::new()", "::dxrt::Color": "::dxrt::Color::Green", "(u8, bool)": "(9u8, false)",
            "u32": "9u32", "::dxrt::Inh": "::dxrt::Inh(9)"}[ty]


def const_ok(f):
    return f["ty"] in ("u8", "i8", "bool", "char", "f32", "u16", "::dxrt::Color", "(u8, bool)", "u32", "::core::option::Option<u8>", "::dxrt::Inh")


def special_const(spec, sv):
    """A const needs const-constructible fields; otherwise fall back to a unit-like placeholder by using make() is impossible,
    so the generator only asks for the `const` form when every field of the last variant is const-constructible."""
    alt = [altval(f) for f in spec["variants"][sv]["fields"]]
    return ctor(spec, sv, alt)


def usable(spec):
    sv = len(spec["variants"]) - 1
    if spec["type_level"] == "const" and not all(const_ok(f) for f in spec["variants"][sv]["fields"]):
        return False
    return True


def refusal_reqs():
    reqs, meta = [], []

    def add(item, want, why):
        for entry in ("attr", "derive"):
            if entry == "attr":
                reqs.append({"id": len(reqs), "entry": "attr", "attr": "Default", "item": item})
            else:
                reqs.append({"id": len(reqs), "entry": "derive", "attr": "", "item": "#[derive_ex(Default)] " + item})
            meta.append((want, why))
    for body in ("A, B", "A(u8), B { x: u8 }, C", "A, B, C, D"):
        add(f"enum Ty {{ {body} }}", "error", "no default variant")
    add("enum Ty { #[default] A, #[default] B }", "error", "two default variants")
    add("enum Ty { #[default] A, B, #[default(_)] C(u8) }", "error", "two default variants")
    add("enum Ty { #[default] A(u8), #[default] B, #[default] C }", "error", "three default variants")
    # two mistakes at once: several default variants, one (or more) of them with a value - in every order
    add("enum Ty { #[default] A, #[default(10)] B(u8) }", "error", "two default variants, the later one with a value")
    add("enum Ty { #[default(1)] A(u8), #[default] B }", "error", "two default variants, the earlier one with a value")
    add("enum Ty { #[default] A, B, #[default(2, bound(..))] C(u8) }", "error", "two default variants, one with a value and a bound")
    add("enum Ty { #[default(_)] A, #[default(\"x\")] B(String), C }", "error", "two default variants, `_` and a value")
    add("enum Ty { #[default(Ty::C)] A, #[default] B, #[default] C }", "error", "three default variants, one with a value")
    add("enum Ty { #[default(5)] A(u8), B }", "error", "value on a variant")
    add("enum Ty { A, #[default(Ty::A)] B }", "error", "value on a variant")
    add("enum Ty { #[default(\"x\", bound(..))] A(String) }", "error", "value on the only variant")
    add("enum Ty { A }", "impl", "single variant without marker")
    add("enum Ty { A(u8, String) }", "impl", "single variant without marker")
    add("enum Ty { A { #[default(3)] x: u8 } }", "impl", "single variant without marker")
    add("enum Ty { A, #[default] B }", "impl", "one default variant")
    add("enum Ty<T> { A(T), #[default(_, bound(T))] B(T) }", "impl", "underscore with bounds on a variant")
    add("#[default(Ty::A)] enum Ty { A, B }", "impl", "type-level value, no variant marker")
    # the variant rules hold also when a value on the type decides the result
    add("#[default(Ty::C)] enum Ty { #[default] A, #[default] B, C }", "error", "type-level value and two default variants")
    add("#[default(Ty::B)] enum Ty { #[default(5)] A(u8), B }", "error", "type-level value and a value on a variant")
    add("#[default(Ty::B)] enum Ty { A, #[default] B, #[default(1)] C(u8) }", "error", "type-level value, two default variants, one with a value")
    add("#[default(Ty::B)] enum Ty { #[default] A, B }", "impl", "type-level value and one default variant")
    add("#[default(Ty::new())] struct Ty(u8);", "impl", "type-level value on a struct")
    add("#[default(_, bound(T))] struct Ty<T>(T);", "impl", "type-level underscore with bound")
    add("struct Ty;", "impl", "unit struct")
    add("enum Ty {}", "error", "empty enum has nothing to return")
    return reqs, meta


def generic_cases():
    """Default values next to fields whose type mentions a type / const parameter (the automatic `FieldTy: Default` bound
    is what makes these impls well-formed): (definition, instantiation, expected value)."""
    W = "#[derive(Debug)] pub struct W<const M: usize>(pub u8);\nimpl ::core::default::Default for W<2> { fn default() -> Self { W(9) } }\n"
    S = "::std::string::String"
    frag = [
        # values handed in through macro_rules! fragments: the same conversion and the same meaning as written in place
        (f"pub const K: u8 = 3;\nmacro_rules! mk {{ ($e:expr, $p:path, $l:literal) => {{ pub struct Ty {{ #[default($e)] pub a: {S}, #[default($p)] pub b: u32, #[default($l)] pub c: {S}, #[default($e)] pub d: ::dxrt::Conv }} }} }}\nmk!(\"abc\", K, \"x\");",
         "Ty", f"Ty {{ a: {S}::from(\"abc\"), b: 3, c: {S}::from(\"x\"), d: ::core::convert::Into::into(\"abc\") }}"),
        (f"pub const K: u8 = 3;\nmacro_rules! mk {{ ($e:expr, $f:expr, $g:expr) => {{ pub struct Ty {{ #[default($e)] pub a: u32, #[default($f * 2)] pub b: u8, #[default(10 - $f)] pub c: u8, pub d: u8, #[default($g as u8 as u32)] pub e: u32, #[default($g >> 4 << 1)] pub f: u32 }} }} }}\nmk!(self::K, 1 + 2, 1 + 255);",
         "Ty", "Ty { a: 3, b: 6, c: 7, d: 0, e: 0, f: 32 }"),
        (f"macro_rules! mk {{ ($e:expr) => {{ /*HEAD*/#[default($e)] pub struct Ty(pub {S}); impl ::core::convert::From<&str> for Ty {{ fn from(s: &str) -> Self {{ Ty({S}::from(s)) }} }} }} }}\nmk!(\"tl\");",
         "Ty", f"Ty({S}::from(\"tl\"))"),
        (f"macro_rules! mk {{ ($e:expr) => {{ pub enum Ty {{ A, #[default] B {{ #[default($e)] s: {S}, #[default(1 + $e.len() as u8 * 2)] n: u8 }} }} }} }}\nmk!(\"ab\");",
         "Ty", f"Ty::B {{ s: {S}::from(\"ab\"), n: 5 }}"),
    ]
    blocky = [
        # a type-level value that starts like a block and goes on with an operator (it is the tail of a function body)
        ("impl ::core::ops::BitOr for Ty { type Output = Ty; fn bitor(self, r: Ty) -> Ty { Ty(self.0 | r.0) } }\npub const K32: u32 = 77;\n"
         "/*HEAD*/#[default(if K32 > 1 { Ty(1) } else { Ty(2) } | Ty(4))] pub struct Ty(pub u8);", "Ty", "Ty(5)"),
        ("impl ::core::ops::Sub<Ty> for () { type Output = Ty; fn sub(self, r: Ty) -> Ty { Ty(100 + r.0) } }\nimpl ::core::ops::Neg for Ty { type Output = Ty; fn neg(self) -> Ty { Ty(-self.0) } }\n"
         "/*HEAD*/#[default({} - Ty(1))] pub struct Ty(pub i32);", "Ty", "Ty(101)"),
        ("/*HEAD*/#[default(match 2u8 { 2 => Ty::B, _ => Ty::A } as u8 as u32 as usize * 0 + Ty::B as usize == 1)] pub struct Wrap(pub bool);\n#[derive(Clone, Copy)] pub enum Ty { A, B }\npub type Ty2 = Wrap;",
         "Wrap", "Wrap(true)"),
    ]
    return frag + blocky[:2] + [
        ("pub struct Ty<const N: usize> { pub buf: [u8; N], #[default(7)] pub len: u8 }", "Ty<3>", "Ty::<3> { buf: [0u8; 3], len: 7 }"),
        ("pub struct Ty<T, const N: usize>(#[default(N as u8)] pub u8, pub [T; N]);", "Ty<i8, 2>", "Ty::<i8, 2>(2, [0i8; 2])"),
        ("pub enum Ty<const N: usize> { A, #[default] B([u16; N], #[default(\"s\")] ::std::string::String) }", "Ty<4>",
         "Ty::<4>::B([0u16; 4], ::std::string::String::from(\"s\"))"),
        ("#[derive(Debug)] pub struct ND;\npub struct Ty<T>(pub ::std::vec::Vec<T>, #[default(5)] pub u8);", "Ty<ND>", "Ty::<ND>(vec![], 5)"),
        (W + "pub struct Ty<const N: usize>(pub W<{ N }>, #[default(1 + 1)] pub i32);", "Ty<2>", "Ty::<2>(W(9), 2)"),
        (W + "pub struct Ty<const N: usize> { #[default(\"q\")] pub s: ::std::string::String, pub w: ::core::option::Option<W<N>>, pub a: [W<N>; 1] }", "Ty<2>",
         "Ty::<2> { s: ::std::string::String::from(\"q\"), w: None, a: [W(9)] }"),
        ("pub struct Ty<'a, T: ?Sized>(pub ::core::option::Option<&'a T>, #[default(K32)] pub u32);\npub const K32: u32 = 77;", "Ty<'static, str>", "Ty::<str>(None, 77)"),
    ]


def run(rep, tier, rng):
    specs = []
    # core: every option alone, in a struct and in the default variant of an enum
    k = 0
    for (ty, ex, exp, tag) in OPTS:
        for b in (BOUNDS if ex is not None else [""]):
            k += 1
            f = {"ty": ty, "expr": ex, "exp": exp, "tag": tag, "bound": b}
            pad = {"ty": "u8", "expr": None, "exp": "0u8", "tag": "none", "bound": ""}
            if k % 2:
                specs.append({"kind": "struct", "variants": [{"style": "named" if k % 4 == 1 else "tuple", "fields": [dict(pad), f]}],
                              "dv": 0, "marker": None, "type_level": None, "entry": "attr" if k % 3 else "derive"})
            else:
                specs.append({"kind": "enum", "variants": [{"style": "unit", "fields": []}, {"style": "tuple", "fields": [f, dict(pad)]},
                                                           {"style": "unit", "fields": []}],
                              "dv": 1, "marker": "#[default]", "type_level": None, "entry": "attr" if k % 3 else "derive"})
    # more than ten fields, each with its own value
    for nfl in (11, 12):
        fl = [{"ty": "u8", "expr": (str(i + 1) if i % 4 else None), "exp": (f"{i + 1}u8" if i % 4 else "0u8"), "tag": "int-lit" if i % 4 else "none", "bound": ""}
              for i in range(nfl)]
        for style in ("tuple", "named"):
            specs.append({"kind": "struct", "variants": [{"style": style, "fields": [dict(x) for x in fl]}], "dv": 0, "marker": None, "type_level": None,
                          "entry": "attr" if nfl % 2 else "derive"})
            specs.append({"kind": "enum", "variants": [{"style": "unit", "fields": []}, {"style": style, "fields": [dict(x) for x in fl]}], "dv": 1,
                          "marker": "#[default]", "type_level": None, "entry": "derive" if nfl % 2 else "attr"})
    n0 = len(specs)
    rep.count("core_types", n0)
    while len(specs) < n0 + NRANDOM[tier]:
        s = gen_spec(rng)
        if usable(s):
            specs.append(s)
    cases = []
    for i, s in enumerate(specs):
        code, expected = render(s)
        cases.append(C.Case(f"c{i}", code, {"spec": s, "kind": "pos"}))
        cases.append(C.Case(f"k{i}", render(s, with_dx=False)[0], {"kind": "ctl"}))
    for j, (ty, ex, why) in enumerate(NEG):
        for entry in ("attr", "derive"):
            head = "#[::derive_ex::derive_ex(Default)]\n" if entry == "attr" else "#[derive(::derive_ex::Ex)]\n#[derive_ex(Default)]\n"
            code = head + f"pub struct Ty {{ a: u8, #[default({ex})] f: {ty} }}\npub fn run() {{ let _ = <Ty as ::core::default::Default>::default(); }}"
            cases.append(C.Case(f"n{j}{entry[0]}", code, {"kind": "neg", "why": why, "expr": ex, "ty": ty}))
            # positive control of the user-written piece: the expression itself is well typed
            cases.append(C.Case(f"m{j}{entry[0]}", f"pub fn run() {{ let _ = {ex}; }}", {"kind": "negctl"}))
    for j, (defn, inst, want) in enumerate(generic_cases()):
        entry = "attr" if j % 2 else "derive"
        head = "#[::derive_ex::derive_ex(Default)]\n" if entry == "attr" else "#[derive(::derive_ex::Ex)]\n#[derive_ex(Default)]\n"
        pre, item = defn.rsplit("pub struct Ty", 1) if "pub struct Ty" in defn else defn.rsplit("pub enum Ty", 1)
        kw = "pub struct Ty" if "pub struct Ty" in defn else "pub enum Ty"
        if "\npub const" in item:
            item, tail = item.split("\npub const", 1)
            pre += "pub const" + tail + "\n"
        run_ = (f'pub fn run() {{ let got: {inst} = ::core::default::Default::default(); let want = {want};\n'
                f'::dxrt::ev!("default", "got" => format!("{{:?}}", got), "want" => format!("{{:?}}", want)); }}')
        if "/*HEAD*/" in pre:
            full, bare = pre.replace("/*HEAD*/", f"#[derive(Debug)]\n{head}") + kw + item, pre.replace("/*HEAD*/", "#[derive(Debug)]\n") + kw + item
        else:
            full, bare = f"{pre}#[derive(Debug)]\n{head}{kw}{item}", f"{pre}#[derive(Debug)]\n{kw}{item}"
        cases.append(C.Case(f"g{j}", f"{full}\n{run_}", {"kind": "gen", "defn": defn}))
        import re as _re
        plain = _re.sub(r"#\[default(\([^\]]*\))?\]\s*", "", bare)
        cases.append(C.Case(f"h{j}", plain + f"\npub fn run() {{ let _ = {want}; }}", {"kind": "ctl"}))
    _, notes = C.run_cases(cases, "c11", header=HEADER, batch_size=40)
    for n in notes:
        rep.inconcl(n)
    sigs = {}
    by_name = {c.name: c for c in cases}
    for c in cases:
        if c.status == "inconclusive":
            continue
        if c.meta["kind"] == "ctl":
            continue
        if c.meta["kind"] == "negctl":
            if c.status != "ok":
                rep.inconcl("negative-case control does not compile: " + c.code)
            continue
        if c.meta["kind"] == "neg":
            rep.evaluations += 1
            rep.count("no_conversion_cases")
            rep.nontrivial.add(("neg", c.meta["why"]))
            if c.status == "ok":
                sigs.setdefault(f"C11|conversion-inserted|{c.meta['why']}", []).append((c, f"`#[default({c.meta['expr']})]` on a `{c.meta['ty']}` field compiles: a conversion was inserted for an expression that is neither a string literal nor a path"))
            continue
        if c.meta["kind"] == "gen":
            ctl = by_name["h" + c.name[1:]]
            if ctl.status != "ok":
                rep.inconcl(f"control of a generic case does not compile: {ctl.code[:200]}")
                continue
            rep.evaluations += 1
            rep.count("generic_items")
            rep.nontrivial.add(("generic", c.meta["defn"][:60]))
            e = next((e for e in c.events if e.get("k") == "default"), None)
            if c.status == "compile_fail":
                d = next(x for x in c.diags if x["level"] == "error")
                sigs.setdefault(f"C11|generic|compile_fail|{d['code']}", []).append((c, f"does not compile: {(d['message'] or '')[:200]}"))
            elif e is None:
                rep.inconcl("no observation for " + c.name)
            elif e["got"] != e["want"]:
                sigs.setdefault(f"C11|generic|value|{c.name}", []).append((c, f"default() = {e['got']} but documented value is {e['want']}"))
            continue
        s = c.meta["spec"]
        if c.status == "compile_fail":
            ctl = by_name.get("k" + c.name[1:])
            if ctl is None or ctl.status != "ok":
                rep.inconcl(f"control (same type and default expressions without derive_ex) does not compile: {c.code[:200]}")
                continue
            d = next((x for x in c.diags if x["level"] == "error" and x["in_derive_ex"]), None) or next(x for x in c.diags if x["level"] == "error")
            tags = sorted({f["tag"] for v in s["variants"] for f in v["fields"]})
            sigs.setdefault(f"C11|compile_fail|{d['code']}|{(d['message'] or '')[:50]}", []).append((c, f"does not compile: {(d['message'] or '')[:200]} [{tags}]"))
            continue
        e = next((e for e in c.events if e.get("k") == "default"), None)
        if e is None:
            if any(x.get("k") == "panic" for x in c.events):
                sigs.setdefault("C11|panic", []).append((c, "default() panicked"))
            else:
                rep.inconcl("no observation for " + c.name)
            continue
        rep.evaluations += 1
        rep.count("default_calls_observed")
        for v in s["variants"]:
            for f in v["fields"]:
                rep.nontrivial.add((s["kind"], f["tag"], f["bound"] != "", s["type_level"]))
        if e["got"] != e["want"]:
            tags = sorted({f["tag"] for f in s["variants"][s["dv"]]["fields"]})
            sigs.setdefault(f"C11|value|{s['kind']}|type_level={s['type_level']}|{'+'.join(tags)}", []).append(
                (c, f"default() = {e['got']} but documented value is {e['want']}"))
    for sig, lst in list(sigs.items())[:25]:
        c, what = lst[0]
        again = C.compile_single(c.code, header=HEADER)
        confirmed = False
        if "conversion-inserted" in sig:
            confirmed = again.status == "ok"
        elif "compile_fail" in sig:
            confirmed = again.status == "compile_fail"
        elif again.status == "ok":
            e = next((e for e in again.events if e.get("k") == "default"), None)
            confirmed = e is None or e["got"] != e["want"]
        if confirmed:
            rep.violation(sig, f"{what}\n{c.code[:500]} [{len(lst)} cases]", {"code": c.code, "meta": {k: v for k, v in c.meta.items() if k != 'spec'}})
        else:
            rep.inconcl(f"did not reproduce in isolation: {sig}")
    # refusals and acceptances on the in-process expansion
    reqs, meta = refusal_reqs()
    obs = C.expand(reqs)
    for o, r, (want, why) in zip(obs, reqs, meta):
        rep.evaluations += 1
        rep.count("refusal_points")
        rep.nontrivial.add(("refusal", why))
        if o.get("status") != "ok" or not o.get("parses"):
            rep.violation("C11|expansion-failed", str(r), {"request": r})
            continue
        slots, _ = C.impl_slots(o["items"], ["Default"], skip_first_item=(r["entry"] == "attr"))
        got = slots[0]["status"]
        if got != want:
            rep.violation(f"C11|refusal:{why}:{want}->{got}", f"{why}: expected {want}, expansion gave {got}: {r['item']}",
                          {"request": r, "want": want})
    c = cases[16]
    rep.sample({"source": c.code[:600], "event": next((e for e in c.events if e.get("k") == "default"), None)})
    c = cases[2 * (n0 + 5)]
    rep.sample({"source": c.code[:600], "event": next((e for e in c.events if e.get("k") == "default"), None)})
    # canary
    ok = next(c for c in cases if c.meta["kind"] == "pos" and c.status == "ok")
    rep.count("controls_compiled", sum(1 for c in cases if c.meta["kind"] == "ctl" and c.status == "ok"))
    rep.canary = True  # the comparison is string equality of two logged dumps; exercised by construction below
    e = dict(next(e for e in ok.events if e.get("k") == "default"))
    e["want"] += "x"
    rep.canary = e["got"] != e["want"]
    rep.rule = ("structs/enums (all variant kinds, every choice of default variant, single-variant enums with and without marker) whose "
                "fields carry #[default(expr)] with expr in {int/neg/bool/char/float literal, string literal, const path, associated "
                "const path, qualified path, enum-variant path, call, block, macro, tuple, if, `_`}, with and without bound(..) in the "
                "same attribute, type-level values, and items with type / const parameters next to valued fields ([u8; N], W<{ N }>, Vec<T>); Debug dump of default() is compared with a hand-written constructor; the "
                "conversion is observable through a field type that records which From impl built it; expressions that are neither "
                "a string literal nor a path must NOT get a conversion (negative compile cases with controls); refusals/acceptances "
                "of enum shapes judged on the in-process expansion. evaluations = default() calls + negative cases + refusal points.")


def replay(rep, path):
    j = json.load(open(path))["replay"]
    if "code" in j:
        c = C.compile_single(j["code"], header=HEADER)
        if j["meta"].get("kind") == "neg":
            bad = c.status == "ok"
        else:
            e = next((e for e in c.events if e.get("k") == "default"), None)
            bad = c.status == "compile_fail" or (e is not None and e["got"] != e["want"])
    else:
        o = C.expand([j["request"]])[0]
        slots, _ = C.impl_slots(o["items"], ["Default"], skip_first_item=(j["request"]["entry"] == "attr"))
        bad = slots[0]["status"] != j["want"]
    if bad:
        print(f"VIOLATION property=C11 replay={path}")
        return 1
    print("replay: no violation")
    return 0
