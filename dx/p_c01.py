"""C01 — derived ==, partial_cmp, cmp follow the documented lexicographic rule (E-run)."""
import itertools
import json

from . import common as C
from . import cmpmodel as M
from . import cmpgen as G

FLOOR = {"quick": 100000, "thorough": 1000000}
NRANDOM = {"quick": 2500, "thorough": 20000}
HEADER = "#![allow(warnings)]"
OPS = {"PartialEq": "eq", "PartialOrd": "pcmp", "Ord": "cmp"}


def subsets4():
    out = []
    for r in range(1, 5):
        for s in itertools.combinations(G.CMP4, r):
            out.append(list(s))
    return out


def core_corpus(rng):
    """Every (attribute x argument) alone on a field, for every subset of derived traits that admits it;
    every pair of attributes on one field for the full set; reverse x key/by; cross-variant ordering."""
    specs = []
    plain = {"ft": "V", "combo": ("-",) * 5, "key": {a: G.FT["V"]["key"][a][0][0] for a in M.ATTRS},
             "keycaps": {a: sorted(G.TOTAL) for a in M.ATTRS}, "by": {a: G.FT["V"]["by"][a][0] for a in M.ATTRS},
             "dom": [f"{G.V}(0)", f"{G.V}(3)"]}

    def field(ft, combo, ndom=4):
        keysel = {a: G.FT[ft]["key"][a][0] for a in M.ATTRS}
        return {"ft": ft, "combo": combo, "key": {a: keysel[a][0] for a in M.ATTRS},
                "keycaps": {a: sorted(keysel[a][1]) for a in M.ATTRS},
                "by": {a: G.FT[ft]["by"][a][0] for a in M.ATTRS},
                # for V keep the values where the partial key / by functions answer None (4, 5)
                "dom": ([G.FT[ft]["dom"][i] for i in (0, 3, 4, 5)] if ft == "V" else G.FT[ft]["dom"][:ndom])}, keysel

    k = 0
    singles = []
    for ai, a in enumerate(M.ATTRS[:4]):
        for o in (M.ORD_OPTS if ai < 2 else M.EQ_OPTS):
            if o == "-":
                continue
            c = ["-"] * 5
            c[ai] = o
            singles.append(tuple(c))
    pairs = []
    for c1, c2 in itertools.combinations(singles, 2):
        if any(x != "-" and y != "-" for x, y in zip(c1, c2)):
            continue
        pairs.append(tuple(x if x != "-" else y for x, y in zip(c1, c2)))
    for combo in singles:
        for d in subsets4():
            for ft in ("V", "P"):
                f, keysel = field(ft, combo)
                if not G.field_ok(ft, combo, keysel, d):
                    continue
                k += 1
                kind = "struct" if k % 2 else "enum"
                variants = [{"style": "named" if k % 3 else "tuple", "fields": [f, dict(plain)] if k % 2 else [dict(plain), f]}]
                if kind == "enum":
                    variants.append({"style": "unit", "fields": []})
                    variants.append({"style": "tuple", "fields": [dict(plain)]})
                specs.append({"kind": kind, "variants": variants, "derived": d, "entry": "attr" if k % 4 < 2 else "derive",
                              "generic": False})
    full = list(G.CMP4)
    for combo in pairs:
        f, keysel = field("V", combo)
        if G.field_ok("V", combo, keysel, full):
            k += 1
            specs.append({"kind": "struct", "variants": [{"style": "tuple", "fields": [f, dict(plain)]}], "derived": full,
                          "entry": "attr" if k % 2 else "derive", "generic": False})
    # four variants of every kind: cross-variant ordering follows declaration order
    specs.append({"kind": "enum", "derived": full, "entry": "attr", "generic": False, "variants": [
        {"style": "unit", "fields": []}, {"style": "tuple", "fields": [dict(plain)]},
        {"style": "named", "fields": [dict(plain), dict(plain)]}, {"style": "unit", "fields": []}]})
    # how the user wrote it must not matter: explicit decreasing discriminants, the trait list split over two attributes
    # (a field helper that belongs to the second list only), Debug co-derived with #[debug(ignore)] on compared fields
    rev, keysel = field("V", ("reverse", "-", "-", "-", "-"))
    ok_, keysel = field("V", ("key", "-", "-", "-", "-"))
    pk, keysel = field("V", ("-", "key", "-", "-", "-"))
    for entry in ("attr", "derive"):
        specs.append({"kind": "enum", "derived": full, "entry": entry, "generic": False, "disc": True, "variants": [
            {"style": "unit", "fields": []}, {"style": "tuple", "fields": [dict(plain)]},
            {"style": "named", "fields": [dict(plain), dict(rev)]}, {"style": "unit", "fields": []}]})
        for split in (1, 2, 3):
            specs.append({"kind": "struct", "derived": full, "entry": entry, "generic": False, "split": split,
                          "variants": [{"style": "named", "fields": [dict(plain), dict(rev), dict(ok_)]}]})
            specs.append({"kind": "enum", "derived": ["PartialOrd", "PartialEq"], "entry": entry, "generic": False, "split": split, "codebug": "first",
                          "variants": [{"style": "tuple", "fields": [dict(pk, dbg_ignore=True), dict(plain)]}, {"style": "unit", "fields": []}]})
        specs.append({"kind": "struct", "derived": full, "entry": entry, "generic": False, "codebug": "last",
                      "variants": [{"style": "tuple", "fields": [dict(plain, dbg_ignore=True), dict(rev), dict(plain, dbg_ignore=True)]}]})
    # `key = $` on the more specific attribute, another key on a less specific one; an explicit discriminant on the first variant only
    def with_keys(combo, keys):
        f, keysel = field("V", combo)
        f["key"] = dict(f["key"], **keys)
        return f if G.field_ok("V", combo, keysel, full) else None
    for entry in ("attr", "derive"):
        fs = [with_keys(("key", "key", "-", "-", "-"), {"partial_ord": "$"}), with_keys(("key", "-", "key", "-", "-"), {"eq": "$"}),
              with_keys(("key", "key", "key", "key", "-"), {"partial_eq": "$", "partial_ord": "$"})]
        fs = [f for f in fs if f]
        if fs:
            specs.append({"kind": "struct", "derived": full, "entry": entry, "generic": False, "variants": [{"style": "named", "fields": fs}]})
        specs.append({"kind": "enum", "derived": full, "entry": entry, "generic": False, "disc": "mixed", "variants": [
            {"style": "tuple", "fields": [dict(plain)]}, {"style": "unit", "fields": []}, {"style": "named", "fields": [dict(plain)]}, {"style": "unit", "fields": []}]})
    # twelve fields: the lexicographic order follows the declaration order, not the text order of names / indices (f10 < f2)
    for style in ("tuple", "named"):
        for kind in ("struct", "enum"):
            fs = []
            for i in range(12):
                f = dict(plain)
                f["dom"] = [f"{G.V}({i % 6})"] if i not in (2, 10) else [f"{G.V}(0)", f"{G.V}(3)"]
                fs.append(f)
            vs = [{"style": style, "fields": fs}] + ([{"style": "unit", "fields": []}] if kind == "enum" else [])
            specs.append({"kind": kind, "variants": vs, "derived": full, "entry": "attr" if style == "tuple" else "derive", "generic": False})
    return specs


def check_case(spec, events):
    """Returns list of (trait, first differing cell, predicted, observed) or raises KeyError if the log is incomplete."""
    tables = G.tables_from_events(events)
    mats = {e["op"]: e for e in events if e.get("k") == "mat"}
    bad = []
    n = len(G.values(spec))
    for t in spec["derived"]:
        if t not in OPS:
            continue
        m = mats.get(OPS[t])
        if m is None:
            bad.append((t, None, None, "no matrix in log"))
            continue
        pred = G.predict(spec, tables, t)
        obs = m["m"]
        if t == "PartialEq" and not m.get("ne_ok", True):
            bad.append((t, None, None, "`!=` is not the negation of `==`"))
        if pred != obs:
            at = next(i for i, (x, y) in enumerate(zip(pred, obs)) if x != y) if len(pred) == len(obs) else 0
            bad.append((t, (at // n, at % n), pred[at] if at < len(pred) else None, obs[at] if at < len(obs) else None))
    return bad


def deciding_field(spec, cell, trait):
    """Description of the fields of the variant involved in a differing cell (signature material)."""
    vals = G.values(spec)
    (va, ia), (vb, ib) = vals[cell[0]], vals[cell[1]]
    if va != vb:
        return f"different-variants({len(spec['variants'])})"
    fs = spec["variants"][va]["fields"]
    d = []
    for fi, f in enumerate(fs):
        if ia[fi] != ib[fi]:
            d.append(f["ft"] + ":" + ",".join(f"{a}={o}" for a, o in zip(M.ATTRS, f["combo"]) if o != "-"))
    return "|".join(sorted(set(d)))[:160]


def run_specs(rep, specs, tag):
    cases = []
    for i, s in enumerate(specs):
        cases.append(C.Case(f"c{i}", G.render(s), {"spec": s, "i": i}))
        cases.append(C.Case(f"k{i}", G.control(s), {"control_of": i}))
    _, notes = C.run_cases(cases, tag, header=HEADER, batch_size=80)
    for n in notes:
        rep.inconcl(n)
    by = {c.name: c for c in cases}
    results = []
    for i, s in enumerate(specs):
        c, k = by[f"c{i}"], by[f"k{i}"]
        if c.status == "inconclusive" or k.status == "inconclusive":
            rep.count("cases_inconclusive")
            continue
        if k.status != "ok":
            rep.inconcl(f"generator control does not compile: {G.describe(s)}: {[d['message'] for d in k.diags][:2]}")
            rep.count("control_failed")
            continue
        results.append((s, c))
    return results


def run(rep, tier, rng):
    specs = core_corpus(rng)
    ncore = len(specs)
    subs = subsets4()
    while len(specs) < ncore + NRANDOM[tier]:
        s = G.gen_spec(rng, rng.choice(subs), max_vals=36 if tier == "quick" else 60)
        if s is not None:
            specs.append(s)
    rep.count("core_types", ncore)
    results = run_specs(rep, specs, "c01")
    sigs = {}
    for s, c in results:
        rep.count("types_compiled_and_run" if c.status == "ok" else "types_compile_fail")
        desc = G.describe(s)
        if c.status == "compile_fail":
            # the control (same user-written pieces without derive_ex) compiled, so the failure is the macro's
            d0 = next((d for d in c.diags if d["level"] == "error" and d["in_derive_ex"]), None) or \
                next((d for d in c.diags if d["level"] == "error"), {"code": None, "message": "?"})
            codes = [str(d0["code"])]
            msg = d0["message"] or ""
            sig = f"C01|compile_fail|{'+'.join(codes)}|{msg[:50]}"
            sigs.setdefault(sig, []).append((s, f"accepted placement does not compile ({codes}: {msg[:160]}): {desc}", {"spec": s, "diags": c.diags[:5], "code": c.code}))
            continue
        if any(e.get("k") == "panic" for e in c.events):
            sigs.setdefault("C01|panic", []).append((s, f"panic in derived code: {desc}", {"spec": s, "code": c.code}))
            continue
        try:
            bad = check_case(s, c.events)
        except KeyError as e:
            rep.inconcl(f"event log incomplete for {desc}: missing table {e}")
            continue
        n = len(G.values(s))
        rep.evaluations += n * n * sum(1 for t in s["derived"] if t in OPS)
        feats = tuple(sorted({(f["ft"], f["combo"]) for v in s["variants"] for f in v["fields"] if f["combo"] != ("-",) * 5}))
        if feats:
            rep.nontrivial.add((s["kind"], tuple(s["derived"]), s["entry"], feats))
        for (t, cell, p, o) in bad:
            where = deciding_field(s, cell, t) if cell else "-"
            sig = f"C01|matrix-cell|{t}|{where}"
            sigs.setdefault(sig, []).append((s, f"{t}: cell {cell} predicted {p} observed {o}: {desc}",
                                             {"spec": s, "trait": t, "cell": cell, "predicted": p, "observed": o, "code": c.code}))
    for s, c in results[:3]:
        rep.sample({"type": G.describe(s), "values": len(G.values(s)), "source": G.type_text(s, "Ty", ", ".join(s["derived"]))})
    # isolation re-run of one representative per signature
    for sig, lst in list(sigs.items())[:12]:
        s, what, replay = lst[0]
        c = C.compile_single(G.render(s), header=HEADER)
        still = False
        if c.status == "compile_fail":
            still = sig.startswith("C01|compile_fail")
        elif c.status == "ok":
            if any(e.get("k") == "panic" for e in c.events):
                still = sig == "C01|panic"
            else:
                still = bool(check_case(s, c.events)) and sig.startswith("C01|matrix")
        if still:
            rep.violation(sig, what + f" [{len(lst)} cases]", replay)
        else:
            rep.inconcl(f"finding did not reproduce in isolation: {sig}")
    for sig, lst in list(sigs.items())[12:]:
        rep.violation(sig, lst[0][1] + f" [{len(lst)} cases, not re-run]", lst[0][2])
    # canary: flip `reverse` in the model for one real case with a reversed field
    for s, c in results:
        if c.status == "ok" and any(M.reversed_for("Ord", f["combo"]) and M.source("Ord", f["combo"])[0] != "ignored"
                                    for v in s["variants"] for f in v["fields"]) and "Ord" in s["derived"]:
            orig = M.reversed_for
            M.reversed_for = lambda t, cb: False
            try:
                rep.canary = bool(check_case(s, c.events))
            finally:
                M.reversed_for = orig
            break
    rep.rule = ("generated structs/enums (0-4 fields per variant, 1-4 variants, field types V, P (NaN-like), Vec<V>, (V,V), Sh (inherent eq/cmp/.. methods that differ from its trait impls), T, "
                "Option<T>) with accepted placements of ord/partial_ord/eq/partial_eq ignore/reverse/key/by (distinct key/by "
                "function per attribute), all 15 subsets of {Ord,PartialOrd,Eq,PartialEq}, both entry points; for all ordered "
                "pairs of the full cartesian value set the logged ==/partial_cmp/cmp result is compared with the documented "
                "rule composed in Python from per-field primitive tables printed by hand-written reference code. "
                "evaluations = matrix cells compared; distinct_nontrivial = distinct (kind, derived set, entry, attributed "
                "field configurations).")
    rep.assumptions = ["the type's own field comparisons (V, P, Vec, tuples, Option) are taken from std via reference tables",
                       "`$` substitution in the reference code is textual `(*x)`"]


def replay(rep, path):
    j = json.load(open(path))["replay"]
    s = j["spec"]
    s["variants"] = [{"style": v["style"], "fields": [dict(f, combo=tuple(f["combo"])) for f in v["fields"]]} for v in s["variants"]]
    c = C.compile_single(G.render(s), header=HEADER)
    if c.status == "compile_fail":
        print(f"VIOLATION property=C01 replay={path}\n  compile_fail {[d['message'] for d in c.diags][:3]}")
        return 1
    if c.status == "ok":
        bad = check_case(s, c.events)
        if bad:
            print(f"VIOLATION property=C01 replay={path}\n  {bad}")
            return 1
    print("replay: no violation")
    return 0
