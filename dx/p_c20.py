"""C20 — whatever expansion accepts without an error of its own type-checks (compile pipeline)."""
import json
import re

from . import common as C
from . import cmpmodel as M
from . import progs

FLOOR = {"quick": 3000, "thorough": 20000}
NGRAMMAR = {"quick": 4000, "thorough": 30000}
NBASE = {"quick": 800, "thorough": 5000}
# only lints that the *definitions themselves* (never used, private probe types) draw are allowed
HEADER = "#![deny(warnings)]\n#![allow(dead_code, private_interfaces, private_bounds)]"
D = "::dxrt::"
ENUM_TRAITS = ["Copy", "Clone", "Debug", "Default", "PartialEq", "Eq", "PartialOrd", "Ord", "Hash"]
SUPER = {"Copy": ["Clone"], "Eq": ["PartialEq"], "PartialOrd": ["PartialEq"], "Ord": ["PartialEq", "Eq", "PartialOrd"]}
CMP_ATTR = {"PartialEq": "partial_eq", "Eq": "eq", "PartialOrd": "partial_ord", "Ord": "ord", "Hash": "hash"}

# field types over the parameters: (text, needs lifetime, params used, implements ops)
FTY = [
    ("T", False, "T", True), ("::core::option::Option<T>", False, "T", False), ("::std::vec::Vec<T>", False, "T", False),
    ("[T; N]", False, "TN", False), ("&'l T", True, "T", False), ("(T, U)", False, "TU", False),
    ("::core::marker::PhantomData<T>", False, "T", False), ("u8", False, "", "noneg"), ("::std::string::String", False, "", False),
    ("[u8; N]", False, "N", False), ("U", False, "U", True), (D + "Fwd<T>", False, "T", True), (D + "Yes", False, "", True),
    ("::std::boxed::Box<T>", False, "T", False), ("&'l str", True, "", False),
    # a parameter mentioned only through a projection
    ("I::Item", False, "I", False), ("::core::option::Option<I::Item>", False, "I", False), ("<I as ::core::iter::Iterator>::Item", False, "I", False),
    ("(u8, ::std::vec::Vec<I::Item>)", False, "I", False),
    # a type with a binder of its own (two such fields, adjacent or not, must not give two ambiguous predicates)
    ("for<'x> fn(&'x T) -> &'x T", False, "T", False), ("for<'x> fn(&'x T) -> &'x T", False, "T", False),
]


def close(traits):
    s = list(traits)
    ch = True
    while ch:
        ch = False
        for t in list(s):
            for x in SUPER.get(t, []):
                if x not in s:
                    s.append(x)
                    ch = True
    return s


def gen_case(rng):
    kind = rng.choice(["struct", "struct", "enum", "enum", "enum"])
    ops = []
    if kind == "struct" and rng.random() < 0.3:
        ops = rng.sample(C.BINOPS + C.ASSIGNOPS + C.UNOPS, rng.randint(1, 3))
    traits = close(rng.sample(ENUM_TRAITS, rng.randint(0 if ops else 1, 6)))
    rng.shuffle(traits)
    traits = traits + ops
    pool = [f for f in FTY if (not ops or f[3] is True or (f[3] == "noneg" and "Neg" not in ops))]
    # Copy needs Copy fields; Default needs Default fields
    if "Copy" in traits:
        pool = [f for f in pool if f[0] in ("T", "u8", "U", "&'l T", "&'l str", "::core::marker::PhantomData<T>", "[u8; N]", "(T, U)", "[T; N]", D + "Yes",
                                            "::core::option::Option<T>", D + "Fwd<T>")]
    if "Default" in traits:
        # `[u8; N]` / `[T; N]` stay in: they are Default only for some N, so the generated bound is what makes the impl type-check
        pool = [f for f in pool if f[0] not in ("&'l T", "for<'x> fn(&'x T) -> &'x T")]
    if not pool:
        pool = [FTY[7]]
    nv = 1 if kind == "struct" else rng.choice([0, 1, 1, 2, 3])
    variants = []
    for vi in range(nv):
        style = rng.choice(["named", "tuple", "unit"])
        nf = 0 if style == "unit" else rng.randint(1 if kind == "struct" and style != "unit" else 0, 3)
        variants.append({"style": style, "fields": [{"ty": rng.choice(pool), "attrs": []} for _ in range(nf)]})
    if kind == "enum" and "Default" in traits and nv == 0:
        traits = [t for t in traits if t != "Default"] or ["Clone"]
    # helper attributes
    dcmp = [t for t in traits if t in CMP_ATTR]
    for v in variants:
        nf = len(v["fields"])
        by_pos = rng.choice(["first", "middle", "last", None, None])
        for i, f in enumerate(v["fields"]):
            r = rng.random()
            here = (by_pos == "first" and i == 0) or (by_pos == "last" and i == nf - 1) or (by_pos == "middle" and 0 < i < nf - 1)
            if dcmp and (here or r < 0.25):
                # one consistent customisation for all derived comparison traits: ord(..) feeds all of them; hash separately
                mode = "by" if here else rng.choice(["key", "by", "ignore", "reverse", "key+reverse"])
                if mode == "ignore":
                    f["attrs"].append("#[ord(ignore)]")
                elif mode == "reverse":
                    if any(t in dcmp for t in ("Ord", "PartialOrd")):
                        f["attrs"].append("#[ord(reverse)]")
                elif mode.startswith("key"):
                    rv = ", reverse" if "reverse" in mode and any(t in dcmp for t in ("Ord", "PartialOrd")) else ""
                    # the key expression may mention `Self` (it is written inside impls)
                    # .. and may borrow from a temporary it creates (fine as long as the value is used within the same expression)
                    kx = rng.choice([f"{D}g_key(&$)", f"{D}g_key(&$)", f"{{ let _ = ::core::marker::PhantomData::<Self>; {D}g_key(&$) }}",
                                     f"{D}g_key(&$).to_string().as_str()", f"::std::vec![{D}g_key(&$), 1u8].as_slice()",
                                     f"({D}g_key(&$), ::core::mem::size_of::<::core::option::Option<&Self>>()).0"])
                    f["attrs"].append(f"#[ord(key = {kx}{rv})]")
                else:
                    f["attrs"].append(f"#[ord(by = {D}g_cmp)]")
                    if "Hash" in dcmp:
                        f["attrs"].append(rng.choice([f"#[hash(by = {D}g_hash)]", f"#[hash(key = {D}g_key(&$))]"]))
            if "Debug" in traits and rng.random() < 0.2:
                f["attrs"].append(rng.choice(["#[debug(ignore)]", "#[debug(bound(..))]"]))
            if "Default" in traits and f["ty"][0] in ("u8",) and rng.random() < 0.4:
                f["attrs"].append(rng.choice(["#[default(5)]", "#[default(_)]", "#[default(1 + 2)]"]))
            if "Default" in traits and f["ty"][0] == "::std::string::String" and rng.random() < 0.4:
                f["attrs"].append("#[default(\"abc\")]")
        if "Debug" in traits and v["fields"] and rng.random() < 0.1:
            for f in v["fields"]:
                f["attrs"] = [a for a in f["attrs"] if not a.startswith("#[debug")]
            rng.choice(v["fields"])["attrs"].append("#[debug(transparent)]")
    used = set()
    lt = False
    for v in variants:
        for f in v["fields"]:
            used |= set(f["ty"][2])
            lt |= f["ty"][1]
    decl = []
    if lt:
        decl.append("'l")
    tb = rng.choice(["", "", ": ::core::fmt::Debug", ": ::core::marker::Sized"])
    if "T" in used:
        b = tb
        if lt:
            b = (b + " + 'l") if b else ": 'l"
        decl.append("T" + b)
    if "I" in used:
        decl.append("I: ::core::iter::Iterator")
    if "U" in used:
        decl.append("U" + (" = u8" if rng.random() < 0.4 and "N" not in used else ""))
    if "N" in used:
        decl.append("const N: ::core::primitive::usize")
    wh = rng.choice(["", "", "", "Self: ::core::marker::Sized", "T: ::core::marker::Sized", "Self: ::core::marker::Sized, ::std::vec::Vec<Self>: ::core::marker::Sized"])
    if "T: " in wh and "T" not in used:
        wh = ""
    dv = None
    if kind == "enum" and "Default" in traits and nv:
        dv = rng.randrange(nv)
    # a std derive below derive_ex that owns a helper attribute of the same name: #[derive(Default)] + #[default] on a unit variant
    stdv = None
    units = [i for i, v in enumerate(variants) if v["style"] == "unit"]
    if kind == "enum" and "Default" not in traits and units and rng.random() < 0.3:
        stdv = rng.choice(units)
    # conditional compilation inside the item: a field / variant under a false cfg (it does not exist), under a true cfg,
    # a helper attribute wrapped in cfg_attr(all(), ..)
    cfg = None
    if rng.random() < 0.12 and variants:
        cfg = rng.choice(["false-field", "false-field", "true-field", "cfg_attr-helper"] + (["false-variant"] if kind == "enum" else []))
        withf = [v for v in variants if v["style"] != "unit"]
        if cfg == "false-field" and withf:
            v = rng.choice(withf)
            v["fields"].insert(rng.randrange(len(v["fields"]) + 1), {"ty": ("NoSuchTypeAnywhere", False, ""), "attrs": [], "cfg": "false"})
        elif cfg == "true-field" and withf:
            v = rng.choice(withf)
            v["fields"].insert(rng.randrange(len(v["fields"]) + 1), {"ty": FTY[12], "attrs": [], "cfg": "true"})
        elif cfg == "false-variant":
            variants.insert(rng.randrange(len(variants) + 1), {"style": "tuple", "fields": [{"ty": ("NoSuchTypeAnywhere", False, ""), "attrs": []}], "cfg": "false"})
            if dv is not None:
                dv = next(i for i, v in enumerate(variants) if not v.get("cfg") and sum(1 for w in variants[:i] if not w.get("cfg")) == dv)
            if stdv is not None:
                stdv = next(i for i, v in enumerate(variants) if not v.get("cfg") and sum(1 for w in variants[:i] if not w.get("cfg")) == stdv)
        elif cfg == "cfg_attr-helper":
            cands = [f for v in variants for f in v["fields"] if f["attrs"]]
            if cands:
                rng.choice(cands)["cfg_attr"] = True
            else:
                cfg = None
        else:
            cfg = None
    return {"kind": kind, "traits": traits, "variants": variants, "decl": decl, "where": wh, "dv": dv,
            "entry": rng.choice(["attr", "derive"]), "split": rng.random() < 0.15, "stdv": stdv, "cfg": cfg,
            # lints: `#[deprecated]` on fields / variants / the type; non-snake-case field names the item allows
            "lint": rng.choice(["deprecated", "names", "underscore"]) if rng.random() < 0.15 else None, "lint_on_type": rng.random() < 0.3}


def render(s, with_dx=True, resolved=False):
    """resolved: the item as it is after conditional compilation (false parts removed, cfg / cfg_attr wrappers dropped)."""
    g = "<" + ", ".join(s["decl"]) + ">" if s["decl"] else ""
    wh = f" where {s['where']}" if s["where"] else ""
    lint = s.get("lint")
    bodies = []
    for vi, v in enumerate(s["variants"]):
        fs = []
        for i, f in enumerate(v["fields"]):
            if resolved and f.get("cfg") == "false":
                continue
            attrs = list(f["attrs"])
            if f.get("cfg_attr") and attrs and not resolved:
                attrs[0] = "#[cfg_attr(all(), " + attrs[0][2:-1] + ")]"
            a = (" ".join(attrs) + " ") if (with_dx and attrs) else ""
            if f.get("cfg") and not resolved:
                a = ("#[cfg(any())] " if f["cfg"] == "false" else "#[cfg(all())] ") + a
            if lint == "deprecated" and i == 0:
                a = "#[deprecated] " + a
            fn_ = f"Fld{i}" if lint == "names" else (f"_f{i}" if lint == "underscore" else f"f{i}")
            fs.append(f"{a}{fn_}: {f['ty'][0]}" if v["style"] == "named" else f"{a}{f['ty'][0]}")
        bodies.append("{ " + ", ".join(fs) + " }" if v["style"] == "named" else ("(" + ", ".join(fs) + ")" if v["style"] == "tuple" else ""))
    if s["kind"] == "struct":
        st = s["variants"][0]["style"]
        item = f"pub struct Ty{g}{wh} {bodies[0]}" if st == "named" else f"pub struct Ty{g}{bodies[0]}{wh};"
    else:
        vs = []
        for vi, b in enumerate(bodies):
            if s["variants"][vi].get("cfg") == "false":
                if not resolved:
                    vs.append(f"#[cfg(any())] V{vi}{b}")
                continue
            m = "#[default] " if ((with_dx and s["dv"] == vi and (len(bodies) > 1 or vi % 2 == 0)) or s.get("stdv") == vi) else ""
            if lint == "deprecated" and vi % 2 == 1:
                m += "#[deprecated] "
            vs.append(f"{m}V{vi}{b}")
        item = f"pub enum Ty{g}{wh} {{ " + ", ".join(vs) + " }"
    if lint == "deprecated" and s.get("lint_on_type"):
        item = "#[deprecated]\n" + item
    if lint == "names":
        item = "#[allow(non_snake_case)]\n" + item
    std = "#[derive(Default)]\n" if s.get("stdv") is not None else ""
    if not with_dx:
        return std + item
    item = std + item
    tr = s["traits"]
    if s["split"] and len(tr) >= 2:
        parts = [", ".join(tr[:len(tr) // 2]), ", ".join(tr[len(tr) // 2:])]
    else:
        parts = [", ".join(tr)]
    if s["entry"] == "attr":
        head = f"#[::derive_ex::derive_ex({parts[0]})]\n" + "".join(f"#[derive_ex({p})]\n" for p in parts[1:])
    else:
        head = "#[derive(::derive_ex::Ex)]\n" + "".join(f"#[derive_ex({p})]\n" for p in parts)
    return head + item


def describe(s):
    return (f"{s['kind']} {s['entry']} derive({'+'.join(s['traits'])}) <{', '.join(s['decl'])}> where[{s['where']}] " +
            "|".join(v["style"] + "[" + ";".join(f["ty"][0].split("::")[-1] + ("{" + ",".join(re.sub(r"[#\[\]]", "", a).split("(")[0] + "(" + re.sub(r".*\((.*?)[ =,)].*", r"\1", a) for a in f["attrs"]) + "}" if f["attrs"] else "") for f in v["fields"]) + "]" for v in s["variants"]))


def features(s):
    t = [s["kind"]]
    if not s["variants"]:
        t.append("empty-enum")
    if "Self" in s["where"]:
        t.append("where-Self")
    if any("by =" in a for v in s["variants"] for f in v["fields"] for a in f["attrs"]):
        t.append("by")
    if any("key =" in a for v in s["variants"] for f in v["fields"] for a in f["attrs"]):
        t.append("key")
    if any(p.startswith("'") for p in s["decl"]):
        t.append("lifetime")
    if any("const" in p for p in s["decl"]):
        t.append("const")
    if s.get("lint"):
        t.append("lint-" + s["lint"])
    return "+".join(t)


def own_errors(c):
    """derive_ex's own refusals: messages without an error code that are not rustc parser / resolver messages."""
    return [d for d in c.diags if d["level"] == "error" and d["code"] is None and not d["in_derive_ex"]
            and not (d["message"] or "").startswith(("cannot find", "expected", "unresolved", "aborting"))]


def located_in_output(c):
    return [d for d in c.diags if d["level"] in ("error", "warning") and d["in_derive_ex"]]


def lint_allowed(d, allowed):
    return d["code"] in allowed


def run(rep, tier, rng):
    # which lints does the std derive draw from the same field types?  (measured, not assumed)
    probe = C.Case("p0", "#[derive(PartialEq)] pub struct S(pub fn(u8) -> u8);\n#[::derive_ex::derive_ex(PartialEq)] pub struct X(pub fn(u8) -> u8);")
    C.run_cases([probe], "c20p", header=HEADER, batch_size=1, runnable=False)
    allowed = set()
    for d in probe.diags:
        if d["level"] == "error" and d["code"] and not d["code"].startswith("E"):
            lines_std = [x for x in probe.diags if x["code"] == d["code"]]
            if len(lines_std) >= 2:      # drawn by the std derive and by derive_ex alike
                allowed.add(d["code"])
    rep.extra["lints_also_drawn_by_std_derive"] = sorted(allowed)
    cases = []
    # one fixed case per kind of conditional compilation under the attribute entry point (listed known finding), then random ones
    fixed = []
    frng = C.rng_for("C20cfg", 0)
    for kind_ in ("false-field", "false-variant", "cfg_attr-helper", "true-field"):
        for _ in range(20000):
            s = gen_case(frng)
            if s.get("cfg") == kind_ and s["entry"] == "attr":
                fixed.append(s)
                break
    for i in range(NGRAMMAR[tier]):
        s = fixed[i] if i < len(fixed) else gen_case(rng)
        code, ctl = render(s), render(s, with_dx=False)
        if i % 5 == 0 and not s.get("cfg"):
            # a second derived type in the same scope: whatever the expansion puts next to the impls must not collide
            s2 = gen_case(rng)
            while s2.get("cfg"):
                s2 = gen_case(rng)
            code += "\n" + re.sub(r"\bTy\b", "Tz", render(s2))
            ctl += "\n" + re.sub(r"\bTy\b", "Tz", render(s2, with_dx=False))
            s = dict(s, second=describe(s2), traits=s["traits"] + [t for t in s2["traits"] if t not in s["traits"]])
        cases.append(C.Case(f"g{i}", code, {"spec": s, "src": "grammar"}))
        cases.append(C.Case(f"k{i}", ctl, {"control": True}))
        if s.get("cfg") in ("false-field", "false-variant", "cfg_attr-helper") and s["entry"] == "attr" and "second" not in s:
            # the same item as it is after conditional compilation (what #[derive(Ex)] is given)
            cases.append(C.Case(f"r{i}", render(s, resolved=True), {"control": True}))
    for j, b in enumerate(progs.base_programs(rng, NBASE[tier])):
        code = b["code"].replace("pub fn run() {", "#[allow(warnings)] pub fn run() {").replace("\nfn dump(", "\n#[allow(warnings)] fn dump(")
        cases.append(C.Case(f"b{j}", code, {"src": b["src"], "traits": b["traits"]}))
    # operator impls on `(&T)` / `((&T))` / a `$t:ty` reference whose where-clause mentions `Self` next to binders
    from . import p_c09
    for k, shape in enumerate(("paren", "paren2", "frag")):
        sp = {"op": "Add", "base": "binary", "lref": True, "rref": True, "other": False, "req": ["Op", "OpAssign"], "shape": shape, "omit_rhs": False, "out_last": bool(k % 2)}
        code = p_c09.render(sp).replace("pub fn run() {", "#[allow(warnings)] pub fn run() {")
        cases.append(C.Case(f"bimpl{k}", code, {"src": "implops", "traits": ["Add"]}))
    # one fixed drop-in program per listed finding of that family (so that every run shows them)
    cases.append(C.Case("bfix0", "#[::derive_ex::derive_ex(Clone)]\n#[repr(packed)]\npub struct Ty { pub f0: i32, pub f1: u8 }", {"src": "dropin", "traits": ["Clone"]}))
    cases.append(C.Case("bfix1", "#[derive(::derive_ex::Ex)]\n#[derive_ex(Clone, Debug)]\npub struct Ty<'a, 'b, T>(pub &'a T, pub &'b T);", {"src": "dropin", "traits": ["Clone", "Debug"]}))
    _, notes = C.run_cases(cases, "c20", header=HEADER, batch_size=60, runnable=False)
    for n in notes:
        rep.inconcl(n)
    by = {c.name: c for c in cases}
    sigs = {}
    for c in cases:
        if c.meta.get("control") or c.status == "inconclusive":
            continue
        if c.meta["src"] == "grammar":
            k = by["k" + c.name[1:]]
            if k.status != "ok":
                rep.count("control_rejected")
                continue
        r = by.get("r" + c.name[1:]) if c.meta["src"] == "grammar" else None
        r_ok = r is not None and (r.status == "ok" or (r.status == "compile_fail" and all(lint_allowed(d, allowed) for d in r.diags if d["level"] == "error")))
        if r is not None and c.status == "compile_fail" and r_ok:
            # The attribute entry point is handed the item BEFORE conditional compilation: a field / variant under a false
            # #[cfg] is still there, a helper attribute inside #[cfg_attr(..)] is not visible.  The item as it is after
            # conditional compilation expands and compiles, so this failure is exactly that and nothing else.
            rep.evaluations += 1
            rep.count("programs_grammar")
            rep.violation(f"C20|attribute-entry-point-expands-the-unconfigured-item|{c.meta['spec']['cfg']}",
                          f"attribute macro entry point + {c.meta['spec']['cfg']}: the generated code does not compile "
                          f"({[(d['code'], (d['message'] or '')[:60]) for d in c.diags if d['level'] == 'error'][:2]}), while the same item after "
                          f"conditional compilation does:\n{c.code[:500]}", {"code": c.code})
            continue
        if own_errors(c):
            rep.count("refused_by_derive_ex_itself")
            continue
        rep.evaluations += 1
        rep.count("programs_" + c.meta["src"])
        if c.meta["src"] == "grammar":
            s = c.meta["spec"]
            rep.nontrivial.add((s["kind"], tuple(sorted(s["traits"])), features(s), tuple(sorted(a.split("(")[0] for v in s["variants"] for f in v["fields"] for a in f["attrs"]))))
        else:
            rep.nontrivial.add((c.meta["src"], tuple(c.meta["traits"])))
        bad = [d for d in located_in_output(c) if not lint_allowed(d, allowed)]
        if c.status == "compile_fail" and not bad and c.meta["src"] == "grammar":
            # grammar cases contain nothing but the type definition, and the control (same definition without derive_ex)
            # compiled warning-free under the same header: every denied lint is drawn by generated code, even when rustc
            # attributes it to a user token whose span derive_ex reused (e.g. a helper fn named after a field)
            bad = [d for d in c.diags if d["level"] == "error" and d["code"] and not d["code"].startswith("E") and not lint_allowed(d, allowed)]
        if c.status == "compile_fail" and not bad:
            # derive_ex gives many generated tokens the span of the user's field, so rustc may attribute an error in
            # generated code to user tokens.  The control compiled (grammar) / the program is well typed by construction
            # (other generators), so a hard error is the macro's; denied lints outside the output are the harness's.
            def in_std_derive(d):
                return any(m.startswith("#[derive(") and "Ex" not in m for m in d.get("macros", []))
            bad = [d for d in c.diags if d["level"] == "error" and (d["code"] or "E").startswith("E") and not lint_allowed(d, allowed)
                   and not (c.meta["src"] != "grammar" and in_std_derive(d))]
        if bad:
            d = bad[0]
            ft = features(c.meta["spec"]) if c.meta["src"] == "grammar" else c.meta["src"]
            tr = "+".join(sorted(set(c.meta["spec"]["traits"]) & set(ENUM_TRAITS))) if c.meta["src"] == "grammar" else ""
            msg = re.sub(r"\b([a-z_]*[a-z_])\d+\b", r"\1N", re.sub(r"`[a-z]\d+::", "`", d["message"] or ""))
            sig = f"C20|{d['code']}|{msg[:60]}"
            if d["code"] == "E0793" and re.search(r"#\[repr\([^)]*packed", c.code):
                sig = "C20|E0793|packed-struct"     # one signature for the listed finding (the same one C12 lists)
            if d["code"] == "E0283" and len(set(re.findall(r"&'(\w+) T\b", c.code))) >= 2:
                sig = "C20|E0283|field-types-equal-up-to-lifetimes"     # listed finding (the same one C12 lists)
            sigs.setdefault(sig, []).append((c, d, ft, tr))
    for sig, lst in list(sigs.items())[:30]:
        # report the smallest witness
        c, d, ft, tr = min(lst, key=lambda x: len(x[0].code))
        again = C.Case("c0", c.code)
        C.run_cases([again], "iso", header=HEADER, batch_size=1, runnable=False)
        still = [x for x in again.diags if x["level"] in ("error", "warning") and not lint_allowed(x, allowed)]
        if again.status == "compile_fail" and still:
            rep.violation(sig, f"rustc reports `{d['code']}: {(d['message'] or '')[:160]}` in code generated for an input derive_ex accepted "
                          f"[{len(lst)} programs; features {sorted({x[2] for x in lst})[:6]}]:\n{c.code[:700]}", {"code": c.code})
        else:
            rep.inconcl("did not reproduce in isolation: " + sig)
    # ---- programs in which types, expressions and attributes reach the macro as macro_rules! fragments, under deny(warnings):
    # nothing the macro adds around a fragment (parentheses ..) may draw a lint or break the item
    FR = ("#[derive(Clone, Debug, PartialEq)] pub struct A(pub i32);\n"
          "macro_rules! mk { ($this:ty, $rhs:ty, $e:expr, $n:expr, $(#[$m:meta])*) => {\n"
          "  @OP impl ::core::ops::Sub<$rhs> for $this { type Output = A; fn sub(self, r: $rhs) -> A { A(self.0 - r.0 + $e - $e + ($n.abs() + $n) as i32) } }\n"
          "  $(#[$m])* @TY pub struct D { $(#[$m])* @DF pub a: u8, pub b: [u8; 2 * $e], pub c: ::core::marker::PhantomData<fn($this)> }\n"
          "  $(#[$m])* @EN #[repr(i8)] pub enum E { $(#[$m])* A = $e, B = $n, C = 2 * $e }\n"
          "} }\nmk!(&A, &A, 1 + 2, -1i8, #[doc = \"forwarded\"] #[cfg(all())]);")
    frag = []
    for k, (op, ty, df, en) in enumerate((("#[::derive_ex::derive_ex(Sub)]", "#[::derive_ex::derive_ex(Clone, Default, PartialEq, Debug)]", "#[default($e)]", "#[::derive_ex::derive_ex(Clone, PartialEq, PartialOrd)]"),
                                         ("#[::derive_ex::derive_ex(Sub, SubAssign)]", "#[derive(::derive_ex::Ex)] #[derive_ex(Clone, Default)]", "#[default($e * 2)]", "#[derive(::derive_ex::Ex)] #[derive_ex(Clone, Debug)]"))):
        frag.append(C.Case(f"fr{k}", FR.replace("@OP", op).replace("@TY", ty).replace("@DF", df).replace("@EN", en), {}))
    frag_ctl = C.Case("frk", FR.replace("@OP", "").replace("@TY", "").replace("@DF", "").replace("@EN", ""), {})
    _, fnotes = C.run_cases(frag + [frag_ctl], "c20f", header=HEADER, batch_size=1, runnable=False)
    for nmsg in fnotes:
        rep.inconcl(nmsg)
    for c in frag:
        if c.status == "inconclusive" or frag_ctl.status != "ok":
            rep.inconcl("fragment program: " + ("control does not compile: " + str([d["message"] for d in frag_ctl.diags][:2]) if frag_ctl.status != "ok" else "inconclusive"))
            continue
        rep.evaluations += 1
        rep.count("programs_fragments")
        bad = [d for d in c.diags if d["level"] == "error" and not lint_allowed(d, allowed)]
        if c.status == "compile_fail" and bad and not own_errors(c):
            d = bad[0]
            rep.violation(f"C20|fragment-program|{d['code']}", f"rustc reports `{d['code']}: {(d['message'] or '')[:160]}` for a program whose types / expressions / attributes are macro_rules! "
                          f"fragments (the same program without derive_ex compiles under the same header):\n{c.code[:700]}", {"code": c.code})
    # ---- further fixed programs, each next to its control (the same program without derive_ex and its helper attributes):
    # (a) default values that need the documented `Into` conversion (string literal, path) handed in as `$e:expr` fragments;
    # (b) a field type that mentions a type parameter AND `Self`, under operators in all reference forms and Clone
    FX = {}
    FX["into-fragment"] = ("pub const K: u32 = 5; pub fn mkp() -> u32 { 7 }\n"
                           "macro_rules! mk2 { ($s:expr, $p:expr, $c:expr, $t:ty) => {\n"
                           "  @TY pub struct D2 { @D1 pub s: ::std::string::String, @D2 pub n: u64, @D2 pub m: $t, @D3 pub k: u32, pub z: u8 }\n"
                           "  @EN pub enum E2 { A, @DV B { @D1 s: ::std::string::String, @D2 n: $t }, C(u8) }\n"
                           "} }\nmk2!(\"abc\", K, mkp(), u64);",
                           {"@D1": "#[default($s)]", "@D2": "#[default($p)]", "@D3": "#[default($c)]", "@DV": "#[default]"},
                           (("#[::derive_ex::derive_ex(Default, Clone)]", "#[::derive_ex::derive_ex(Default)]"),
                            ("#[derive(::derive_ex::Ex)] #[derive_ex(Default)]", "#[derive(::derive_ex::Ex)] #[derive_ex(Default, Debug)]")))
    TG = ("pub struct Tagged<T, Tag>(pub T, pub ::core::marker::PhantomData<fn() -> Tag>);\n"
          "impl<T: ::core::clone::Clone, Tag> ::core::clone::Clone for Tagged<T, Tag> { fn clone(&self) -> Self { Tagged(self.0.clone(), ::core::marker::PhantomData) } }\n"
          "macro_rules! tg { ($l:ty, $r:ty) => { impl<'a, T: ::core::marker::Copy + ::core::ops::Add<Output = T>, Tag> ::core::ops::Add<$r> for $l { type Output = Tagged<T, Tag>;\n"
          "  fn add(self, rhs: $r) -> Tagged<T, Tag> { Tagged(self.0 + rhs.0, ::core::marker::PhantomData) } } } }\n"
          "tg!(Tagged<T, Tag>, Tagged<T, Tag>); tg!(&'a Tagged<T, Tag>, Tagged<T, Tag>); tg!(Tagged<T, Tag>, &'a Tagged<T, Tag>); tg!(&'a Tagged<T, Tag>, &'a Tagged<T, Tag>);\n"
          "impl<T: ::core::ops::Neg<Output = T>, Tag> ::core::ops::Neg for Tagged<T, Tag> { type Output = Self; fn neg(self) -> Self { Tagged(-self.0, ::core::marker::PhantomData) } }\n"
          "impl<'a, T: ::core::marker::Copy + ::core::ops::Neg<Output = T>, Tag> ::core::ops::Neg for &'a Tagged<T, Tag> { type Output = Tagged<T, Tag>; fn neg(self) -> Tagged<T, Tag> { Tagged(-self.0, ::core::marker::PhantomData) } }\n"
          "impl<T: ::core::ops::AddAssign, Tag> ::core::ops::AddAssign for Tagged<T, Tag> { fn add_assign(&mut self, rhs: Self) { self.0 += rhs.0; } }\n"
          "impl<'a, T: ::core::ops::AddAssign + ::core::marker::Copy, Tag> ::core::ops::AddAssign<&'a Tagged<T, Tag>> for Tagged<T, Tag> { fn add_assign(&mut self, rhs: &'a Self) { self.0 += rhs.0; } }\n")
    FX["self-in-field-type"] = (TG + "@TY pub struct Meters<T> { pub a: Tagged<T, Self>, pub b: Tagged<i8, Self> }\n@EN pub struct M2<T>(pub Tagged<T, Self>, pub i64);\n"
                                "pub fn use_all(x: Meters<i32>, y: M2<i16>) -> (i32, i16) { (x.a.0 + x.b.0 as i32, y.0 .0 + y.1 as i16) }", {},
                                (("#[::derive_ex::derive_ex(Add, Neg, Clone)]", "#[::derive_ex::derive_ex(Add, AddAssign)]"),
                                 ("#[derive(::derive_ex::Ex)] #[derive_ex(Neg, Add, AddAssign)]", "#[derive(::derive_ex::Ex)] #[derive_ex(Clone, Add, Neg)]")))
    for fam, (text, helpers, variants) in FX.items():
        def fill(t, ty, en, on):
            t = t.replace("@TY", ty).replace("@EN", en)
            for k, v in helpers.items():
                t = t.replace(k, v if on else "")
            return t
        ctl = C.Case("fxk", fill(text, "", "", False), {})
        fxs = [C.Case(f"fx{k}", fill(text, ty, en, True), {}) for k, (ty, en) in enumerate(variants)]
        _, fnotes = C.run_cases(fxs + [ctl], "c20x", header=HEADER, batch_size=1, runnable=False)
        for nmsg in fnotes:
            rep.inconcl(nmsg)
        for c in fxs:
            if c.status == "inconclusive" or ctl.status != "ok":
                rep.inconcl(f"fixed program {fam}: " + ("control does not compile: " + str([d["message"] for d in ctl.diags][:2]) if ctl.status != "ok" else "inconclusive"))
                continue
            rep.evaluations += 1
            rep.count("programs_fixed_with_control")
            rep.nontrivial.add(("fixed", fam, c.name))
            bad = [d for d in c.diags if d["level"] == "error" and not lint_allowed(d, allowed)]
            if c.status == "compile_fail" and bad and not own_errors(c):
                d = bad[0]
                rep.violation(f"C20|{fam}|{d['code']}", f"rustc reports `{d['code']}: {(d['message'] or '')[:160]}` for a program derive_ex accepted "
                              f"(the same program without derive_ex compiles under the same header):\n{c.code[:900]}", {"code": c.code})
    g0 = next(c for c in cases if c.meta.get("src") == "grammar" and c.status == "ok" and c.meta["spec"]["variants"])
    rep.sample({"source": g0.code, "status": g0.status})
    g1 = next((c for c in cases if c.meta.get("src") == "grammar" and c.status == "ok" and "by" in features(c.meta["spec"])), g0)
    rep.sample({"source": g1.code, "status": g1.status})
    # canary: a program whose generated impl cannot type-check (missing bound forced by bound()) must be flagged
    can = C.Case("c0", "#[::derive_ex::derive_ex(Clone(bound()))]\npub struct Ty<T>(T);")
    C.run_cases([can], "c20c", header=HEADER, batch_size=1, runnable=False)
    rep.canary = can.status == "compile_fail" and any(d["code"] == "E0277" for d in can.diags)
    rep.rule = ("programs of the other generators (comparison/Hash with helper attributes, Clone, operators, Debug, Default, all eight traits, "
                "Deref) plus a crossing grammar: random trait lists (incl. operators on structs, split lists) x struct/enum shapes incl. empty "
                "and single-variant enums x lifetime/type/const parameters with inline bounds, defaults and where-clauses mentioning `Self` x "
                "field types over the parameters (also through projections `I::Item`) x ord/hash ignore/reverse/key/by (generic-friendly functions) with `by` on first/middle/last "
                "fields, debug ignore/transparent/bound, default values, `Self` inside key expressions, a std #[derive(Default)] sharing the item, "
                "a second derived type in the same scope, `#[deprecated]` fields / variants / types and non-snake-case field names under the item's own `#[allow]`, fields / variants under #[cfg(any())] / #[cfg(all())] and helper attributes inside "
                "#[cfg_attr(all(), ..)] x both entry points; compiled metadata-only under #![deny(warnings)]. "
                "Oracle: if derive_ex reports no error of its own and the control (same definition without derive_ex) compiles, rustc must "
                "report no error and no denied warning located in derive_ex's output (lints the std derive draws from the same field types "
                "are measured at run time and allowed). evaluations = accepted programs judged.")
    rep.assumptions = ["`bound(...)` is not used by the grammar except where needed (explicit bounds are the user's responsibility)"]


def replay(rep, path):
    j = json.load(open(path))["replay"]
    c = C.Case("c0", j["code"])
    C.run_cases([c], "iso", header=HEADER, batch_size=1, runnable=False)
    if c.status == "compile_fail" and not own_errors(c):
        print(f"VIOLATION property=C20 replay={path}\n  {[d['message'] for d in c.diags][:3]}")
        return 1
    print("replay: no violation")
    return 0
