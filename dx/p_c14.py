"""C14 — the item is re-emitted unchanged apart from derive_ex's own attributes (E-exp)."""
import json

from . import common as C
from . import cmpmodel as M
from . import gens as G

FLOOR = {"quick": 15000, "thorough": 200000}
COUNT = {"quick": 20000, "thorough": 300000}
HELPER_NAMES = G.HELPERS + ["derive_ex"]


def make_case(rng, idx):
    """Returns (request, meta) for one generated input."""
    mode = rng.random()
    if mode < 0.08:
        item, derived = G.gen_impl_item(rng)
        erring = rng.random() < 0.35
        if erring:
            # a request that does not fit the impl (other operator, unknown name, assign from assign): the impl must survive
            derived = rng.choice([["Neg"], ["NoSuchTrait"], [rng.choice(C.BINOPS) + "x"], ["Clone"], derived + ["Whatever"]])
        attr = ", ".join(derived)
        exp = G.render(item)   # impl items carry no helper attributes of derive_ex
        return ({"id": idx, "entry": "attr", "attr": attr, "item": G.render(item), "expect_item": exp},
                {"kind": "impl", "derived": derived, "erring": erring})
    item, derived = G.gen_type_item(rng)
    if item["kind"] == "enum" and idx % 3 == 0:
        # explicit discriminants also on variants that have fields (`#[repr(u8)] enum E { A(u8) = 1, B { x: u8 } = 4 }`); decided
        # from the case index, without a draw, so that the rest of the stream stays what it was
        for i, v in enumerate(item["variants"]):
            if (idx // 3 + i) % 2 == 0:
                v["disc"] = f"= {i * 3 + 1}"
    elems, shared = G.gen_trait_args(rng, derived)
    erring = False
    late = False
    if mode < 0.30:
        # provoke an error in the derivation
        erring = True
        e = rng.randrange(7)
        # e in (2, 3, 4, 6): the argument list is fine (so the derived traits are known) and the error comes from a helper
        # attribute or from building an impl; e in (0, 1, 5): the argument list itself is rejected
        late = e in (2, 3, 4, 6)
        if e == 0:
            elems.insert(rng.randrange(len(elems) + 1), "NoSuchTrait")
        elif e == 1:
            elems[rng.randrange(len(elems))] += "" if "(" in elems[0] else "(bogus_argument)"
            if not any("bogus" in x for x in elems):
                elems.append("Clone(bogus_argument)")
        elif e == 2:
            item["attrs"].insert(rng.randrange(len(item["attrs"]) + 1), G.A("#[ord(ignore)]", "ord"))
            if not any(t in C.CMP for t in derived):
                elems.append("Ord")
                derived = derived + ["Ord"]
        elif e == 3:
            fs = item.get("fields") or [f for v in item.get("variants", []) for f in v["fields"]]
            if len(fs) >= 1:
                for f in fs[:2]:
                    f["attrs"].append(G.A("#[debug(transparent)]", "debug"))
                if len(fs) == 1:
                    f["attrs"].append(G.A("#[debug(ignore)]", "debug"))  # duplicate attribute -> error
            if "Debug" not in derived:
                elems.append("Debug")
                derived = derived + ["Debug"]
        elif e == 4:
            if item["kind"] == "enum":
                for v in item["variants"]:
                    v["attrs"].append(G.A("#[default]", "default"))
                if "Default" not in derived:
                    elems.append("Default")
                    derived = derived + ["Default"]
            else:
                elems.append("Deref")   # error unless exactly one field
                derived = derived + ["Deref"]
        elif e == 5:
            shared.append("bound(=>)")
        else:
            fs = item.get("fields") or [f for v in item.get("variants", []) for f in v["fields"]]
            if fs:
                fs[0]["attrs"].append(G.A("#[hash(key = )]", "hash"))
            if "Hash" not in derived:
                elems.append("Hash")
                derived = derived + ["Hash"]
    # dump (shared, or on one trait) turns impls into an error message; the item is re-emitted as always
    dumped = False
    if not erring and rng.random() < 0.12:
        dumped = True
        bare = [i for i, e in enumerate(elems) if "(" not in e]
        if bare and rng.random() < 0.5:
            i = rng.choice(bare)
            elems[i] = elems[i] + "(dump)"
        else:
            shared.append("dump")
    attr = ", ".join(elems + shared)
    text = G.render(item)
    if G.dontcare_helper(G.all_attrs(item), derived):
        return None
    if erring and not late:
        req = {"id": idx, "entry": "attr", "attr": attr, "item": text, "expect_item": text, "strip": HELPER_NAMES}
    else:
        req = {"id": idx, "entry": "attr", "attr": attr, "item": text,
               "expect_item": G.render(item, G.keep_for_derived(derived))}
    return req, {"kind": item["kind"], "derived": derived, "erring": erring, "late": late, "dumped": dumped}


def judge(o, meta):
    """Returns None or (symptom, detail)."""
    if o.get("status") != "ok" or not o.get("parses"):
        return ("expansion-failed", str(o.get("status")) + " " + str(o.get("panic_msg") or o.get("parse_err")))
    if o.get("expect_cmp") is None:
        return None   # generator produced something that is not an item: harness, not judged
    first = o.get("first_cmp")
    errs = [it for it in o["items"] if it["kind"] == "compile_error"]
    if first != o["expect_cmp"]:
        kind = "item-differs-on-error" if errs else "item-differs"
        return (kind, f"expected: {o['expect_cmp']}\nobserved: {first}")
    if meta["erring"]:
        return None
    return None


def features(req, meta, symptom):
    """Coarse, seed-independent description of a failing case for the signature."""
    f = [meta["kind"], "erring" if meta["erring"] else "ok"]
    exp, got = (req.get("_exp"), req.get("_got"))
    return ",".join(f)


def diff_tokens(a, b):
    """First differing region of two token strings (for signatures / messages)."""
    ta, tb = (a or "").split(), (b or "").split()
    i = 0
    while i < min(len(ta), len(tb)) and ta[i] == tb[i]:
        i += 1
    j = 0
    while j < min(len(ta), len(tb)) - i and ta[-1 - j] == tb[-1 - j]:
        j += 1
    return " ".join(ta[i:len(ta) - j])[:80], " ".join(tb[i:len(tb) - j])[:80]


def sig_of(o, meta, symptom):
    only_exp, only_obs = diff_tokens(o.get("expect_cmp"), o.get("first_cmp"))
    # keep attribute names only, so that the signature names the kind of attribute that was lost / kept
    import re
    names = lambda s: ",".join(sorted(set(re.findall(r"# \[ ?([A-Za-z_:]+)", s))))
    return f"C14|{symptom}|{meta['kind']}|missing[{names(only_exp)}]|extra[{names(only_obs)}]"


def run(rep, tier, rng):
    n = COUNT[tier]
    reqs, metas = [], []
    while len(reqs) < n:
        r = make_case(rng, len(reqs))
        if r is None:
            continue
        reqs.append(r[0])
        metas.append(r[1])
    obs = C.expand(reqs)
    shapes = set()
    for o, req, meta in zip(obs, reqs, metas):
        rep.evaluations += 1
        if o.get("expect_cmp") is None:
            rep.count("generator_nonitem")
            continue
        errs = [it for it in o.get("items", []) if it["kind"] == "compile_error"]
        rep.count("expansions_with_error" if errs else "expansions_clean")
        if meta.get("dumped"):
            rep.count("expansions_with_dump")
        if meta["erring"] and not errs:
            rep.count("error_provocation_accepted")
        ex = o["expect_cmp"]
        import re
        rep.nontrivial.add((meta["kind"], tuple(sorted(set(re.findall(r"# \[ ?([A-Za-z_:]+)", ex)))), bool(errs)))
        j = judge(o, meta)
        if j:
            symptom, detail = j
            rep.violation(sig_of(o, meta, symptom), f"{symptom}: #[derive_ex({req['attr']})] {req['item'][:300]}\n{detail[:600]}",
                          {"request": req, "meta": meta, "detail": detail})
    # the derive entry point must emit impls (or errors) only, never the item
    dreqs = []
    for r, m in list(zip(reqs, metas))[:min(len(reqs), 4000)]:
        if m["kind"] != "impl":
            dreqs.append({"id": len(dreqs), "entry": "derive", "attr": "", "item": f"#[derive_ex({r['attr']})] {r['item']}"})
    for o, r in zip(C.expand(dreqs), dreqs):
        rep.evaluations += 1
        rep.count("derive_entry_outputs_checked")
        if o.get("status") != "ok" or not o.get("parses"):
            rep.violation("C14|derive-entry|expansion-failed", str(r)[:400], {"request": dict(r, expect_item=""), "meta": {"kind": "derive", "derived": [], "erring": False}, "detail": ""})
        elif any(it["kind"] in ("struct", "enum", "union") for it in o["items"]):
            rep.violation("C14|derive-entry|item-emitted", f"#[derive(Ex)] output contains a type definition: {r['item'][:300]}",
                          {"request": dict(r, expect_item=""), "meta": {"kind": "derive", "derived": [], "erring": False}, "detail": "item emitted by derive entry"})
    # ---- E-run: items that reach the attribute macro with macro_rules! fragments inside (invisible groups cannot be written
    # as text, so the in-process expansion never sees them): the re-emitted item must still mean what was written.
    # Twin = the same definitions in the same macro without the attribute.
    body1 = ("$(#[$m])* #[repr(u8)] pub enum E { $(#[$m])* A = $e, B = 2 * $e, C = $o << 4, D = $o >> 1 & 1 }\n $(#[$m])* pub struct S($(#[$m])* pub [u8; 2 * $e], pub [u8; $o << 1]);\n"
             " #[derive(Clone)] pub struct I(pub u8);\n impl ::core::ops::Add for I { type Output = I; fn add(self, r: I) -> I { I(self.0 + r.0 + 2 * $e) } }\n"
             " pub fn obs() -> ::std::string::String { format!(\"{} {} {} {} {} {}\", E::A as u8, E::B as u8, E::C as u8, E::D as u8, ::core::mem::size_of::<S>(), (I(1) + I(1)).0) }")
    body2 = (" pub struct P<'a>(pub &'a $t, pub ::std::boxed::Box<$t>);\n pub struct Q<$l>(pub &$l $t, pub ::core::option::Option<&$l mut $t>, pub &$l $u);\n"
             " pub fn obs() -> ::std::string::String { let p = P(&1u8, ::std::boxed::Box::new(2u8)); let q = Q(&3u8, None, &4u8); format!(\"{:?} {:?} {:?} {}\", p.0, p.1, q.0, q.1.is_none()) }")
    fcases = []
    for body, kws, attr_sets in ((body1, ("$(#[$m])* #[repr(u8)] pub enum E", "$(#[$m])* pub struct S", "impl ::core::ops::Add for I"),
                                  (("Clone", "Clone", "AddAssign"), ("", "", "AddAssign"), ("Clone, Debug", "Default", "AddAssign"))),
                                 (body2, ("pub struct P", "pub struct Q"), (("", ""), ("Debug", "Debug")))):
        for attrs in attr_sets:
            marked = body
            for kw, a in zip(kws, attrs):
                marked = marked.replace(kw, (f"#[::derive_ex::derive_ex({a})] " if a else "#[::derive_ex::derive_ex] ") + kw, 1)
            for inner, kind in ((marked, "case"), (body, "ctl")):
                code = ("macro_rules! mk { ($e:expr, $o:expr, $t:ty, $u:ty, $l:lifetime, $(#[$m:meta])*) => { pub mod dx { " + inner + " } pub mod tw { " + body + " } } }\n"
                        "mk!(1 + 2, 1 | 2, dyn ::core::fmt::Debug + Send, dyn ::core::fmt::Debug + 'q, 'q, #[doc = \"forwarded\"] #[allow(dead_code)] #[cfg(all())]);\n"
                        'pub fn run() { ::dxrt::ev!("frag", "got" => dx::obs(), "want" => tw::obs()); }')
                fcases.append(C.Case(f"f{len(fcases)}", code, {"attrs": attrs, "kind": kind}))
    ctls = [c for c in fcases if c.meta["kind"] == "ctl"]
    _, fnotes = C.run_cases(fcases, "c14f", header="#![allow(warnings)]", batch_size=1)
    for n in fnotes:
        rep.inconcl(n)
    for c in [c for c in fcases if c.meta["kind"] == "case"]:
        if c.status == "inconclusive" or any(k.status != "ok" for k in ctls):
            rep.inconcl("macro-fragment item: harness program (control) does not compile" if any(k.status != "ok" for k in ctls) else "macro-fragment item inconclusive")
            continue
        rep.evaluations += 1
        rep.count("macro_fragment_items_compiled")
        ev = next((e for e in c.events if e.get("k") == "frag"), None)
        if c.status == "compile_fail":
            d = next(x for x in c.diags if x["level"] == "error")
            rep.violation("C14|macro-fragment-item|compile_fail", f"the item does not compile after passing through the attribute macro ({(d['message'] or '')[:120]}); without the attribute it does:\n{c.code[:500]}", {"code": c.code, "frag": True})
        elif ev is None:
            rep.inconcl("no observation in " + c.name)
        elif ev["got"] != ev["want"]:
            rep.violation("C14|macro-fragment-item|changed", f"the re-emitted item means something else: observed {ev['got']!r}, the same definitions without the attribute give {ev['want']!r}\n{c.code[:500]}", {"code": c.code, "frag": True})
    for k in (0, 1, 2):
        rep.sample({"attr": reqs[k]["attr"], "item": reqs[k]["item"], "expected_item": reqs[k]["expect_item"],
                    "erring": metas[k]["erring"]})
    # canary: an expectation that wrongly keeps the derive_ex-owned attributes must be flagged
    it, derived = G.gen_type_item(C.rng_for("C14canary", 0), kind="struct", derived=["Debug", "Clone"])
    it["fields"] = [{"attrs": [G.A("#[debug(ignore)]", "debug")], "vis": "", "name": "f0", "ty": "u8"}]
    it["style"] = "named"
    creq = {"id": 0, "entry": "attr", "attr": "Debug, Clone", "item": G.render(it), "expect_item": G.render(it)}
    co = C.expand([creq])[0]
    rep.canary = judge(co, {"kind": "struct", "derived": derived, "erring": False}) is not None
    rep.rule = ("random struct/enum/impl items with interleaved foreign attributes (doc comments, repr, cfg_attr, allow, "
                "serde-like, path and name=value attributes), all visibility forms, generics/where-clauses, discriminants, "
                "helper attributes of derived and of not-derived traits on type/variant/field; ~30% with a provoked "
                "derivation error, ~8% with `dump` (shared or on one trait). Oracle: first emitted item == input minus derive_ex attributes minus helper attributes "
                "that the doc table assigns to a derived trait (token equality through one lexer) - also when the derivation "
                "fails after the argument list was accepted; when the argument list itself is rejected the "
                "item must survive modulo helper-named attributes. distinct_nontrivial = distinct (item kind, set of "
                "attribute names expected to survive, errored?) classes. Plus compiled programs in which the items contain macro_rules! "
                "fragments ($e:expr in a discriminant / array length / fn body, $t:ty behind `&` and in `Box<..>`): what the re-emitted items "
                "mean (discriminant values, sizes, results) is compared with the same definitions without the attribute.")
    rep.assumptions = ["which helper attributes survive when the derive_ex argument list itself is rejected (the derived traits are then unknown) is unspecified and not judged",
                       "partial_eq with Eq-but-not-PartialEq derived is not generated (doc table vs trybuild disagree)"]


def replay(rep, path):
    j = json.load(open(path))["replay"]
    if j.get("frag"):
        c = C.compile_single(j["code"], header="#![allow(warnings)]")
        ev = next((e for e in c.events if e.get("k") == "frag"), None)
        if c.status == "compile_fail" or (ev and ev["got"] != ev["want"]):
            print(f"VIOLATION property=C14 replay={path}")
            return 1
        print("replay: no violation")
        return 0
    o = C.expand([j["request"]])[0]
    r = judge(o, j["meta"])
    if r:
        print(f"VIOLATION property=C14 replay={path}\n  {r[0]}: {r[1][:500]}")
        return 1
    print("replay: no violation")
    return 0
