"""Generators shared by several properties."""
from . import common as C


def fuzz_seeds(rng):
    """Generator output used as additional C16 seeds: items exercising every helper attribute."""
    out = []
    items = [
        ("Ord, PartialOrd, Eq, PartialEq, Hash",
         "struct S<T> { #[ord(key = $.0, reverse)] #[hash(by = f)] a: (u8, T), #[eq(ignore)] b: u8 }"),
        ("Ord, PartialOrd, Eq, PartialEq, Hash, Clone, Copy, Debug, Default",
         "enum E<'a, T: 'a, const N: usize> where T: Copy { #[default] A, B(#[debug(ignore)] &'a T, [u8; N]), "
         "#[derive_ex(Clone(bound(T: Clone)))] C { #[partial_ord(by = g, bound(..))] x: T } }"),
        ("Default(bound(T)), Debug, bound(T: Copy, ..)",
         "#[default(Self::new(), bound(T))] #[debug(bound())] pub struct D<T>(#[debug(transparent)] pub T, #[default(\"x\")] String);"),
        ("Add, AddAssign, Neg, Not, Sub(dump)", "struct O<T>(T, #[derive_ex(Add(bound(T)))] u8);"),
        ("Deref, DerefMut", "struct R<T: ?Sized>(Box<T>);"),
        ("Add, AddAssign", "impl<T> std::ops::Add<&X<T>> for &X<T> where Self: Sized { type Output = X<T>; fn add(self, rhs: &X<T>) -> X<T> { todo!() } }"),
        ("Sub", "impl std::ops::SubAssign<u8> for Y { fn sub_assign(&mut self, rhs: u8) {} }"),
    ]
    for attr, item in items:
        out.append({"entry": "attr", "attr": attr, "item": item, "origin": "gen"})
        out.append({"entry": "derive", "attr": "", "item": f"#[derive_ex({attr})] {item}", "origin": "gen"})
    return out
