"""Generators shared by several properties: a small IR for annotated items, a renderer and a
random item generator for the E-exp (in-process expansion) properties."""
import copy

from . import common as C
from . import cmpmodel as M

STRUCT_TRAITS = C.BASIC + C.CMP + C.BINOPS + C.ASSIGNOPS + C.UNOPS
ENUM_TRAITS = C.BASIC + C.CMP
HELPERS = ["ord", "partial_ord", "eq", "partial_eq", "hash", "debug", "default"]

FOREIGN = [
    "#[doc = \"some doc\"]", "/// doc comment", "#[allow(dead_code)]", "#[cfg_attr(test, allow(unused))]",
    "#[serde(rename = \"x\", skip)]", "#[a::b(c)]", "#[path_attr::nested::deep]", "#[name = \"value\"]",
    "#[must_use]", "#[rustfmt::skip]", "#[clippy::foo]", "#[derive(Foo)]", "#[cfg(all())]", "#[inline]",
    # path attributes whose last segment is spelled like a helper attribute / like derive_ex: foreign all the same
    "#[foo::debug]", "#[clippy::default]", "#[x::ord(ignore)]", "#[a::partial_eq]", "#[other::hash(key = 1)]",
    "#[derive_ex::derive_ex(Clone)]", "#[q::derive_ex(Debug)]", "#[m::eq = \"v\"]",
]
TYPE_FOREIGN = ["#[repr(C)]", "#[non_exhaustive]", "#[derive(Other, Traits)]", "#[repr(u8)]"]
VIS = ["", "pub ", "pub(crate) ", "pub(super) ", "pub(in crate) "]
FIELD_TYPES = ["u8", "String", "T", "Vec<T>", "Option<U>", "(T, U)", "[u8; N]", "&'a T", "Box<T>", "::std::rc::Rc<T>",
               "::core::marker::PhantomData<T>", "fn(T) -> U", "*const T", "i64", "f64", "<T as Tr>::Assoc", "T::Assoc"]


def A(text, owner=None):
    return {"text": text, "owner": owner}


def render_attrs(attrs, keep):
    return "".join(a["text"] + ("\n" if a["text"].startswith("///") else " ") for a in attrs if keep(a))


def render_fields(style, fields, keep):
    if style == "unit":
        return ""
    parts = []
    for f in fields:
        s = render_attrs(f["attrs"], keep) + f.get("vis", "")
        if style == "named":
            s += f"{f['name']}: {f['ty']}"
        else:
            s += f["ty"]
        parts.append(s)
    body = ", ".join(parts)
    return "{ " + body + " }" if style == "named" else "(" + body + ")"


def render(item, keep=lambda a: True):
    g = f"<{item['generics']}>" if item.get("generics") else ""
    w = f" where {item['where']}" if item.get("where") else ""
    s = render_attrs(item["attrs"], keep) + item.get("vis", "")
    if item["kind"] == "struct":
        body = render_fields(item["style"], item["fields"], keep)
        if item["style"] == "named":
            return f"{s}struct {item['name']}{g}{w} {body}"
        return f"{s}struct {item['name']}{g}{body}{w};"
    if item["kind"] == "enum":
        vs = []
        for v in item["variants"]:
            t = render_attrs(v["attrs"], keep) + v["name"] + render_fields(v["style"], v["fields"], keep)
            if v.get("disc"):
                t += " " + v["disc"]
            vs.append(t)
        return f"{s}enum {item['name']}{g}{w} {{ " + ", ".join(vs) + " }"
    if item["kind"] == "impl":
        return f"{s}impl{g} {item['trait']} for {item['self_ty']}{w} {{ {item['body']} }}"
    raise ValueError(item["kind"])


def keep_for_derived(derived):
    """C14: attributes expected to survive re-emission when `derived` traits are requested."""
    def keep(a):
        o = a["owner"]
        if o is None:
            return True
        if o == "derive_ex":
            return False
        return not any(t in derived for t in M.OWNS[o])
    return keep


def dontcare_helper(item_attrs_iter, derived):
    for a in item_attrs_iter:
        o = a["owner"]
        if o and o != "derive_ex":
            for (h, t) in M.OWNS_DONTCARE:
                if o == h and t in derived and not any(x in derived for x in M.OWNS[o]):
                    return True
    return False


def all_attrs(item):
    yield from item["attrs"]
    for f in item.get("fields", []):
        yield from f["attrs"]
    for v in item.get("variants", []):
        yield from v["attrs"]
        for f in v["fields"]:
            yield from f["attrs"]


# ---------------------------------------------------------------------------
# random generation
# ---------------------------------------------------------------------------

def rand_bound(rng, trait_hint=None):
    opts = ["bound()", "bound(T)", "bound(..)", "bound(T: Copy)", "bound(T: Clone + Copy, ..)", "bound(Vec<T>)",
            "bound(T, U: ::core::fmt::Debug)", "bound(T: 'static, ..)", "bound(Option<U>, ..)",
            "bound(T, U, Vec<T>, Option<U>, Box<T>)", "bound(U, T, [T; 2], ..)", "bound(T: Copy, U: Clone, T: 'static, U: Sized)"]
    return rng.choice(opts)


def cmp_helper_attrs(rng, derived_cmp, allow_invalid=False):
    """Comparison helper attributes for one field, (mostly) accepted for the derived comparison traits."""
    if not derived_cmp:
        return []
    combos = M.all_combos()
    for _ in range(40):
        combo = rng.choice(combos)
        # only attributes owned by a derived trait are helpers; keep the rest out here
        if any(o != "-" and not any(t in derived_cmp for t in M.OWNS[a]) for a, o in zip(M.ATTRS, combo)):
            continue
        if sum(o != "-" for o in combo) > 3:
            continue
        if allow_invalid or all(M.status(t, combo) == "accept" for t in derived_cmp):
            break
    else:
        return []
    key = {a: rng.choice(["$.0", "k(&$)", "$.len()", "{ let x = &$; x.k() }", "f($.0, [$.1])", "$", "g(&$, \"two  spaces\")", "($, ' ').0"]) for a in M.ATTRS}
    by = {"ord": "cmp_fn", "partial_ord": "|a, b| a.partial_cmp(b)", "eq": "eq_fn", "partial_eq": "|a, b| a == b",
          "hash": "hash_fn"}
    out = []
    for a, o in zip(M.ATTRS, combo):
        if o == "-":
            if rng.random() < 0.08 and any(t in derived_cmp for t in M.OWNS[a]):
                out.append(A(f"#[{a}({rand_bound(rng)})]", a))
            continue
        fl = M.flags(o)
        args = []
        if fl["ignore"]:
            args.append("ignore")
        if fl["reverse"]:
            args.append("reverse")
        if fl["key"]:
            args.append(f"key = {key[a]}")
        if fl["by"]:
            args.append(f"by = {by[a]}")
        if rng.random() < 0.15:
            args.append(rand_bound(rng))
        out.append(A(f"#[{a}({', '.join(args)})]", a))
    rng.shuffle(out)
    return out


def field_helper_attrs(rng, derived, position_ok_transparent):
    out = []
    dcmp = [t for t in derived if t in C.CMP]
    out += cmp_helper_attrs(rng, dcmp) if rng.random() < 0.5 else []
    if "Debug" in derived and rng.random() < 0.3:
        c = rng.random()
        if c < 0.5:
            out.append(A("#[debug(ignore)]", "debug"))
        elif c < 0.7 and position_ok_transparent:
            out.append(A("#[debug(transparent)]", "debug"))
        else:
            out.append(A(f"#[debug({rand_bound(rng)})]", "debug"))
    if "Default" in derived and rng.random() < 0.3:
        # literals whose spelling contains runs of whitespace / escapes: they have to come through expansion and dump as written
        v = rng.choice(["5", "\"abc\"", "S", "T::new()", "_", "-1", "{ 1 + 2 }", "Self::K", "Default::default()",
                        "\"a  b\"", "\"tab\\there   x\"", "' '", "r\"raw   \\ str\"", "b\"by  tes\"", "f(\"x   y\", ' ')"])
        b = ", " + rand_bound(rng) if rng.random() < 0.3 else ""
        out.append(A(f"#[default({v}{b})]", "default"))
    if rng.random() < 0.15 and derived:
        t = rng.choice(derived)
        out.append(A(f"#[derive_ex({t}({rand_bound(rng)}))]" if rng.random() < 0.6 else f"#[derive_ex({t}, {rand_bound(rng)})]",
                     "derive_ex"))
    return out


def other_helper_attrs(rng, derived):
    """Helper-named attributes of traits that are NOT derived (must be kept, C14)."""
    out = []
    for h in HELPERS:
        if rng.random() < 0.06 and not any(t in derived for t in M.OWNS[h]) and \
                not any((h, t) in M.OWNS_DONTCARE for t in derived):
            out.append(A(f"#[{h}({rng.choice(['ignore', 'x = 1', 'bound(T)', ''])})]", h))
    return out


def interleave_foreign(rng, attrs, pool, p=0.35):
    out = list(attrs)
    while rng.random() < p:
        out.insert(rng.randrange(len(out) + 1), A(rng.choice(pool)))
    return out


def gen_fields(rng, derived, n=None, style=None):
    style = style or rng.choice(["named", "tuple", "unit"])
    if style == "unit":
        return style, []
    n = rng.randint(0, 4) if n is None else n
    fields = []
    transparent_used = False
    for i in range(n):
        hs = field_helper_attrs(rng, derived, not transparent_used)
        if any("transparent" in a["text"] for a in hs):
            transparent_used = True
        hs += other_helper_attrs(rng, derived)
        attrs = interleave_foreign(rng, hs, FOREIGN)
        fields.append({"attrs": attrs, "vis": rng.choice(VIS) if rng.random() < 0.3 else "",
                       "name": f"f{i}", "ty": rng.choice(FIELD_TYPES)})
    return style, fields


def gen_generics(rng):
    c = rng.random()
    if c < 0.25:
        return "", ""
    g = rng.choice(["T", "T, U", "'a, T", "'a, T: 'a + Copy, U = u8", "T, const N: usize", "'a, T, U, const N: usize",
                    "T: Tr, U", "T: ?Sized"])
    w = rng.choice(["", "", "T: Clone", "Self: Sized, T: Copy", "Vec<T>: ::core::fmt::Debug", "for<'x> &'x T: Copy"])
    return g, w


def gen_type_item(rng, kind=None, derived=None):
    kind = kind or rng.choice(["struct", "enum"])
    pool = STRUCT_TRAITS if kind == "struct" else ENUM_TRAITS
    if derived is None:
        k = rng.choice([1, 1, 2, 2, 3, 4, 6])
        derived = rng.sample(pool, min(k, len(pool)))
    g, w = gen_generics(rng)
    item = {"kind": kind, "name": "Ty", "vis": rng.choice(VIS), "generics": g, "where": w}
    tattrs = []
    dcmp = [t for t in derived if t in C.CMP]
    if dcmp and rng.random() < 0.15:
        h = rng.choice([a for a in M.ATTRS if any(t in dcmp for t in M.OWNS[a])])
        tattrs.append(A(f"#[{h}({rand_bound(rng)})]", h))
    if "Debug" in derived and rng.random() < 0.15:
        tattrs.append(A(f"#[debug({rand_bound(rng)})]", "debug"))
    if "Default" in derived and rng.random() < 0.2:
        tattrs.append(A(rng.choice(["#[default(Self::new())]", "#[default(_, bound(T))]", f"#[default(_, {rand_bound(rng)})]"]), "default"))
    tattrs += other_helper_attrs(rng, derived)
    item["attrs"] = interleave_foreign(rng, tattrs, FOREIGN + TYPE_FOREIGN, 0.45)
    if kind == "struct":
        item["style"], item["fields"] = gen_fields(rng, derived)
    else:
        vs = []
        nv = rng.choice([0, 1, 1, 2, 2, 3, 4])
        default_at = rng.randrange(nv) if nv else None
        for i in range(nv):
            style, fields = gen_fields(rng, derived, n=rng.randint(0, 3))
            vattrs = []
            if "Default" in derived and i == default_at and (nv > 1 or rng.random() < 0.5):
                vattrs.append(A(rng.choice(["#[default]", f"#[default(_, {rand_bound(rng)})]"]), "default"))
            if rng.random() < 0.1 and derived:
                t = rng.choice(derived)
                vattrs.append(A(f"#[derive_ex({t}({rand_bound(rng)}))]", "derive_ex"))
            if dcmp and rng.random() < 0.08:
                h = rng.choice([a for a in M.ATTRS if any(t in dcmp for t in M.OWNS[a])])
                vattrs.append(A(f"#[{h}({rand_bound(rng)})]", h))
            vattrs += other_helper_attrs(rng, derived)
            v = {"attrs": interleave_foreign(rng, vattrs, FOREIGN), "name": f"V{i}", "style": style, "fields": fields}
            if style == "unit" and rng.random() < 0.15:
                v["disc"] = f"= {i * 3 + 1}"
            vs.append(v)
        item["variants"] = vs
    return item, derived


def gen_trait_args(rng, derived, allow_dump=False):
    """Render the trait list with per-trait / shared bound(..) arguments.  Returns list of element strings."""
    elems = []
    for t in derived:
        if rng.random() < 0.2:
            elems.append(f"{t}({rand_bound(rng)})")
        else:
            elems.append(t)
    shared = []
    if rng.random() < 0.2:
        shared.append(rand_bound(rng))
    return elems, shared


def gen_impl_item(rng):
    op = rng.choice(C.BINOPS)
    assign = rng.random() < 0.25
    tr = op + ("Assign" if assign else "")
    fn = C.OPFN[op] + ("_assign" if assign else "")
    g, w = rng.choice([("", ""), ("T", "T: Clone"), ("T: Copy", "Self: Sized"), ("'a, T", "")])
    ty = "X<T>" if "T" in g else "X"
    lref = rng.random() < 0.5 and not assign
    rhs = rng.choice([ty, f"&{ty}", "u8", "&u8", None])
    self_ty = f"&{ty}" if lref else ty
    if rng.random() < 0.2:
        # operand types that are not single paths: sums (with and without a trailing `+`), parenthesized, tuples, arrays, fn pointers
        odd = ["dyn Tr + Send", "dyn Tr +", "impl Tr + 'static", "(dyn Tr + Send)", "&(dyn Tr +)", "&'a (dyn Tr + 'a)", "(X)", "((X,), u8)",
               "[X; 2]", "fn(X) -> X", "*const X", "<X as Tr>::Assoc", "Box<dyn Tr + Send>", "!", "&mut X", "&'static X"]
        if rng.random() < 0.5:
            rhs = rng.choice(odd)
        else:
            # (no trailing `+` in front of `where` / `{`)
            self_ty = rng.choice([o for o in odd if not o.endswith("+")])
    trait = f"::core::ops::{tr}" + (f"<{rhs}>" if rhs else "")
    rty = rhs or self_ty
    if assign:
        body = f"fn {fn}(&mut self, rhs: {rty}) {{ let _ = rhs; }}"
    else:
        body = f"type Output = {ty}; fn {fn}(self, rhs: {rty}) -> Self::Output {{ let _ = rhs; todo!() }}"
    item = {"kind": "impl", "attrs": interleave_foreign(rng, [], FOREIGN, 0.3), "generics": g, "where": w, "trait": trait,
            "self_ty": self_ty, "body": body}
    if assign:
        derived = [op]
    else:
        derived = rng.choice([[op], [op + "Assign"], [op, op + "Assign"]])
    return item, derived


def fuzz_seeds(rng):
    """Generator output used as additional C16 seeds: items exercising every helper attribute."""
    out = []
    items = [
        ("Ord, PartialOrd, Eq, PartialEq, Hash",
         "struct S<T> { #[ord(key = $.0, reverse)] #[hash(by = f)] a: (u8, T), #[eq(ignore)] b: u8 }"),
        ("Ord, PartialOrd, Eq, PartialEq, Hash, Clone, Copy, Debug, Default",
         "enum E<'a, T: 'a, const N: usize> where T: Copy { #[default] A, B(#[debug(ignore)] &'a T, [u8; N]), "
         "#[derive_ex(Clone(bound(T: Clone)))] C { #[partial_ord(by = g, bound(..))] x: T } }"),
        ("Default(bound(T)), Debug, bound(T: Copy, ..)",
         "#[default(Self::new(), bound(T))] #[debug(bound())] pub struct D<T>(#[debug(transparent)] pub T, #[default(\"x\")] String);"),
        ("Add, AddAssign, Neg, Not, Sub(dump)", "struct O<T>(T, #[derive_ex(Add(bound(T)))] u8);"),
        ("Deref, DerefMut", "struct R<T: ?Sized>(Box<T>);"),
        ("Add, AddAssign", "impl<T> std::ops::Add<&X<T>> for &X<T> where Self: Sized { type Output = X<T>; fn add(self, rhs: &X<T>) -> X<T> { todo!() } }"),
        ("Sub", "impl std::ops::SubAssign<u8> for Y { fn sub_assign(&mut self, rhs: u8) {} }"),
        ("Add", "impl Add<dyn Tr +> for X { type Output = X; fn add(self, rhs: dyn Tr +) -> X { self } }"),
        ("Add, AddAssign", "impl !Add for X {}"),
        ("Sub", "impl<T> !SubAssign<T> for X<T> {}"),
        ("Mul, MulAssign", "impl Mul<X> for dyn Tr + Send { type Output = X; fn mul(self, rhs: X) -> X { rhs } }"),
        ("Shl", "impl ShlAssign<&(impl Tr +)> for (X) { fn shl_assign(&mut self, rhs: &(impl Tr +)) {} }"),
        ("Debug, Clone", "struct Dy { a: u8, t: dyn ::core::fmt::Debug + Send }"),
        # inner attributes, lint attributes of every kind, `*const _` in an impl header
        ("Add, AddAssign", "#[allow(unused)] impl Add for X { #![allow(unused_variables)] #![doc = \"inner\"] type Output = X; fn add(self, rhs: X) -> X { self } }"),
        ("Sub", "#[deny(missing_docs)] #[allow(clippy::all)] #[warn(unused)] impl Sub<*const _> for X { type Output = X; fn sub(self, rhs: *const _) -> X { self } }"),
        ("Clone, Debug, PartialEq, bound(*const _: Copy, ..)", "#[allow(non_snake_case, dead_code)] #[expect(unused)] #[forbid(unsafe_code)] struct L<T> { #[deprecated] Fld: *const T, _m: u8 }"),
        # several traits repeated in the attributes of one field / variant (whichever is reported, it has to be the same one every time)
        ("Clone, Default, Debug, PartialEq", "struct Du { #[derive_ex(Clone, Default, Debug, PartialEq)] #[derive_ex(PartialEq, Debug, Default, Clone)] a: u8 }"),
        ("Clone, Debug, Hash", "enum Dv { #[derive_ex(Hash, Debug(bound()), Clone)] #[derive_ex(Clone(bound(..)), Hash, Debug)] A(u8), B }"),
        # predicates / bounds with binders of their own next to `Self` in an operator impl on a reference
        ("Add, AddAssign", "impl<T> Add<&X<T>> for &X<T> where for<'b> Self: Tr<'b>, T: for<'c> Tq<'c, Self>, for<'d> &'d T: Tq<'d, Self> { type Output = X<T>; fn add(self, rhs: &X<T>) -> X<T> { todo!() } }"),
        ("Sub", "impl<T: for<'b> Tq<'b, Self>> Sub<(&X<T>)> for ((&X<T>)) where for<'e, 'f> Self: Tr<'e> + Tr<'f> { type Output = X<T>; fn sub(self, rhs: (&X<T>)) -> X<T> { todo!() } }"),
        ("Clone, Default", "#[allow(deprecated)] #[deprecated = \"x\"] enum Le { #[deprecated] #[default] A, #[allow(unused)] B { #[deprecated(note = \"n\")] _x: u8 } }"),
    ]
    for attr, item in items:
        out.append({"entry": "attr", "attr": attr, "item": item, "origin": "gen"})
        out.append({"entry": "derive", "attr": "", "item": f"#[derive_ex({attr})] {item}", "origin": "gen"})
    # every derivable trait on every tiny shape, both entry points (run unmodified by the fuzz loop, and mutated)
    shapes = ["struct X;", "struct X();", "struct X {}", "struct X(u8);", "struct X { a: u8 }", "struct X(u8, u16);", "struct X<T> { a: T, b: u8, c: T }",
              # raw identifiers for field, variant and type names (names are pasted into generated identifiers)
              "struct X { r#type: u8, r#fn: u16 }", "enum X { A { r#match: u8, r#in: u16 }, r#Self_ }", "struct r#struct<r#T>(r#T);",
              "enum X {}", "enum X { A }", "enum X { A(u8) }", "enum X { A {}, B() }", "enum X<T> { A, B(T), C { t: T } }", "union X { a: u8 }",
              "struct X<T: ?Sized>(T);", "struct X<'a, const N: usize>(&'a [u8; N]);"]
    for t in STRUCT_TRAITS + ["Deref", "DerefMut"]:
        for sh in shapes:
            out.append({"entry": "attr", "attr": t, "item": sh, "origin": "gen-shapes"})
            out.append({"entry": "derive", "attr": "", "item": f"#[derive_ex({t})] {sh}", "origin": "gen-shapes"})
    for _ in range(60):
        it, derived = gen_type_item(rng)
        elems, shared = gen_trait_args(rng, derived)
        attr = ", ".join(elems + shared)
        out.append({"entry": "attr", "attr": attr, "item": render(it), "origin": "gen"})
        out.append({"entry": "derive", "attr": "", "item": f"#[derive_ex({attr})] " + render(it), "origin": "gen"})
    for _ in range(12):
        it, derived = gen_impl_item(rng)
        out.append({"entry": "attr", "attr": ", ".join(derived), "item": render(it), "origin": "gen"})
    return out
