"""Shared infrastructure: paths, builds A/B, dxmon bridge, rustc batch pipeline,
evidence / replay / known-findings handling.  Python 3.11 stdlib only."""
import hashlib
import json
import os
import random
import re
import shutil
import subprocess
import sys
import tempfile
import time
from concurrent.futures import ThreadPoolExecutor

ROOT = os.path.dirname(os.path.dirname(os.path.abspath(__file__)))
CACHE = os.path.join(ROOT, ".cache")
OUT = os.environ.get("DX_OUT", ROOT)   # evidence/ and replays/ go here (seedrun points it elsewhere for mutant runs)
REPO = os.path.abspath(os.environ.get("DX_REPO", "/repo"))
TAG = hashlib.sha1(REPO.encode()).hexdigest()[:8]
GUARD = "frozenlib_derive_ex_verif"
NPROC = int(os.environ.get("DX_JOBS", "16"))
EDITION = "2021"
NMARK = 48  # number of marker traits M<0>..M<NMARK-1> known to dxrt

ENV = dict(os.environ)
ENV["CARGO_NET_OFFLINE"] = "true"
ENV.pop("RUSTFLAGS", None)
ENV.pop("CARGO_TARGET_DIR", None)
ENV.pop("RUSTC_WRAPPER", None)


class Inconclusive(Exception):
    """The harness could not observe; never a violation."""


def log(*a):
    print(*a, file=sys.stderr, flush=True)


def sh(cmd, **kw):
    kw.setdefault("env", ENV)
    kw.setdefault("capture_output", True)
    kw.setdefault("text", True)
    return subprocess.run(cmd, **kw)


# --------------------------------------------------------------------------
# builds
# --------------------------------------------------------------------------

_MANIFEST = """[package]
name = "dxmon"
version = "0.0.0"
edition = "2021"

[lib]
name = "derive_ex"
path = "{repo}/derive-ex/src/lib.rs"

[[bin]]
name = "dxmon"
path = "{root}/dxmon/src/main.rs"

[dependencies]
syn = {{ version = "2.0.60", features = ["full", "extra-traits", "visit", "visit-mut"] }}
quote = "1.0.36"
proc-macro2 = "1.0.81"
structmeta = "0.3.0"
serde_json = "1"

[lints.rust]
unexpected_cfgs = {{ level = "allow", check-cfg = ['cfg({guard})'] }}

[profile.release]
opt-level = 2
debug = false
panic = "unwind"

[workspace]
"""


def _write_if_changed(path, content):
    try:
        if open(path).read() == content:
            return
    except OSError:
        pass
    os.makedirs(os.path.dirname(path), exist_ok=True)
    with open(path, "w") as f:
        f.write(content)


def ensure_lock():
    """Scratch worktrees of the repository have no Cargo.lock (it is git-ignored upstream)."""
    lock = os.path.join(REPO, "Cargo.lock")
    if not os.path.exists(lock):
        for cand in ("/repo/Cargo.lock", os.path.join(ROOT, "dxmon", "Cargo.lock.seed")):
            if os.path.exists(cand):
                shutil.copy(cand, lock)
                break
    return lock


_built = {}
import threading
_build_lock = threading.RLock()


def _locked(fn):
    def w(*a, **k):
        with _build_lock:
            return fn(*a, **k)
    w.__name__ = fn.__name__
    w.__doc__ = fn.__doc__
    return w


@_locked
def build_a():
    """Build A: the working tree's expander as an ordinary library (hooks ON) + dxmon."""
    if "a" in _built:
        return _built["a"]
    ws = os.path.join(CACHE, "ws-" + TAG)
    os.makedirs(ws, exist_ok=True)
    _write_if_changed(os.path.join(ws, "Cargo.toml"),
                      _MANIFEST.format(repo=REPO, root=ROOT, guard=GUARD))
    lock = os.path.join(ws, "Cargo.lock")
    if not os.path.exists(lock):
        shutil.copy(ensure_lock(), lock)
    env = dict(ENV)
    env["RUSTFLAGS"] = f"--cfg {GUARD}"
    tdir = os.path.join(CACHE, "target-mon-" + TAG)
    t0 = time.time()
    r = sh(["cargo", "build", "--release", "--offline", "--manifest-path",
            os.path.join(ws, "Cargo.toml"), "--target-dir", tdir], env=env)
    if r.returncode != 0:
        raise Inconclusive("build A (hooks on) failed:\n" + r.stderr[-4000:])
    exe = os.path.join(tdir, "release", "dxmon")
    log(f"[build A] dxmon ready in {time.time()-t0:.1f}s ({REPO})")
    _built["a"] = exe
    return exe


@_locked
def build_b():
    """Build B: the real proc-macro dylib of the working tree, guard OFF."""
    if "b" in _built:
        return _built["b"]
    tdir = os.path.join(CACHE, "target-pm-" + TAG)
    ensure_lock()
    t0 = time.time()
    r = sh(["cargo", "build", "-p", "derive-ex", "--offline", "--manifest-path",
            os.path.join(REPO, "Cargo.toml"), "--target-dir", tdir,
            "--message-format=json"])
    so = None
    for line in r.stdout.splitlines():
        try:
            m = json.loads(line)
        except ValueError:
            continue
        if m.get("reason") == "compiler-artifact" and m.get("target", {}).get("name") in ("derive_ex", "derive-ex"):
            for f in m.get("filenames", []):
                if f.endswith(".so"):
                    so = f
    if r.returncode != 0 or not so:
        raise Inconclusive("build B (proc-macro) failed:\n" + r.stderr[-4000:])
    # stable copy so that rustc invocations are not disturbed by later cargo runs
    dst = os.path.join(CACHE, f"libderive_ex-{TAG}.so")
    if not os.path.exists(dst) or open(dst, "rb").read() != open(so, "rb").read():
        shutil.copy(so, dst + ".tmp")
        os.replace(dst + ".tmp", dst)
    log(f"[build B] proc-macro ready in {time.time()-t0:.1f}s")
    _built["b"] = dst
    return dst


@_locked
def build_rt():
    """dxrt: probe types / recorders shared by all generated programs."""
    if "rt" in _built:
        return _built["rt"]
    src0 = os.path.join(ROOT, "rt", "dxrt.rs")
    src = os.path.join(CACHE, "dxrt_full.rs")
    out = os.path.join(CACHE, "libdxrt.rlib")
    if not os.path.exists(out) or os.path.getmtime(out) < os.path.getmtime(src0):
        os.makedirs(CACHE, exist_ok=True)
        gen = "\n".join(f"impl M<{j}> for AllBut<{i}> {{}}" for i in range(NMARK) for j in range(NMARK) if i != j)
        with open(src, "w") as f:
            f.write(open(src0).read().replace("// @@MARKERS@@", gen + "\n// "))
        r = sh(["rustc", "--edition", EDITION, "--crate-type", "rlib", "--crate-name", "dxrt",
                "-C", "opt-level=1", "-C", "debuginfo=0", "-A", "warnings", src, "-o", out + ".tmp"])
        if r.returncode != 0:
            raise Inconclusive("dxrt failed to compile:\n" + r.stderr[-4000:])
        os.replace(out + ".tmp", out)
    _built["rt"] = out
    return out


# --------------------------------------------------------------------------
# E-exp: dxmon bridge
# --------------------------------------------------------------------------

def expand(reqs, threads=NPROC):
    """reqs: list of dicts {id, entry, attr, item, ...}; returns list of observation dicts
    in the same order."""
    exe = build_a()
    data = "\n".join(json.dumps(r) for r in reqs) + "\n"
    r = subprocess.run([exe, "expand", str(threads)], input=data, capture_output=True, text=True, env=ENV)
    if r.returncode != 0:
        raise Inconclusive(f"dxmon expand exited {r.returncode}: {r.stderr[-2000:]}")
    outs = [json.loads(l) for l in r.stdout.splitlines() if l.strip()]
    if len(outs) != len(reqs):
        raise Inconclusive(f"dxmon expand returned {len(outs)} observations for {len(reqs)} requests")
    return outs


def harvest_seeds():
    exe = build_a()
    r = subprocess.run([exe, "seeds", REPO], capture_output=True, text=True, env=ENV)
    if r.returncode != 0:
        raise Inconclusive("dxmon seeds failed: " + r.stderr[-2000:])
    return [json.loads(l) for l in r.stdout.splitlines() if l.strip()]


def impl_slots(obs_items, traits, skip_first_item=False):
    """Assign the generated items of one expansion to the listed traits, in order.
    Returns list of dicts {trait, status: 'impl'|'error'|'missing', items:[...]} or None if the
    stream cannot be aligned (e.g. one global error)."""
    items = list(obs_items)
    if skip_first_item and items and items[0]["kind"] in ("struct", "enum", "union", "impl", "other"):
        items = items[1:]
    slots = []
    i = 0
    for t in traits:
        if i >= len(items):
            slots.append({"trait": t, "status": "missing", "items": []})
            continue
        it = items[i]
        if it["kind"] == "compile_error":
            slots.append({"trait": t, "status": "error", "items": [it]})
            i += 1
            continue
        n = expected_item_count(t)
        got = items[i:i + n]
        slots.append({"trait": t, "status": "impl", "items": got})
        i += n
    return slots, items[i:]


BINOPS = ["Add", "BitAnd", "BitOr", "BitXor", "Div", "Mul", "Rem", "Shl", "Shr", "Sub"]
ASSIGNOPS = [b + "Assign" for b in BINOPS]
UNOPS = ["Neg", "Not"]
CMP = ["Ord", "PartialOrd", "Eq", "PartialEq", "Hash"]
BASIC = ["Copy", "Clone", "Debug", "Default"]
OPFN = {"Add": "add", "BitAnd": "bitand", "BitOr": "bitor", "BitXor": "bitxor", "Div": "div",
        "Mul": "mul", "Rem": "rem", "Shl": "shl", "Shr": "shr", "Sub": "sub", "Neg": "neg", "Not": "not"}
OPSYM = {"Add": "+", "BitAnd": "&", "BitOr": "|", "BitXor": "^", "Div": "/", "Mul": "*", "Rem": "%",
         "Shl": "<<", "Shr": ">>", "Sub": "-", "Neg": "-", "Not": "!"}


def expected_item_count(trait):
    if trait in BINOPS:
        return 4
    if trait in ASSIGNOPS or trait in UNOPS:
        return 2
    if trait == "Eq":
        return 2  # impl + hidden `const _` assertion
    return 1


# --------------------------------------------------------------------------
# E-run: batch compile / run pipeline
# --------------------------------------------------------------------------

class Case:
    """One generated program region.  `code` is the text that goes inside `mod <name> { .. }`;
    it must define `pub fn run()` when the batch is executed."""
    __slots__ = ("name", "code", "meta", "diags", "status", "events", "lines")

    def __init__(self, name, code, meta=None):
        self.name = name
        self.code = code
        self.meta = meta or {}
        self.diags = []      # rustc diagnostics attributed to this case
        self.status = None   # 'ok' | 'compile_fail' | 'inconclusive'
        self.events = []     # parsed event-log lines of this case
        self.lines = (0, 0)


def _render_batch(cases, header, runnable, extra_items=""):
    out = [header, "extern crate derive_ex;", "extern crate dxrt;", extra_items]
    line = sum(s.count("\n") + 1 for s in out) + 1
    for c in cases:
        text = f"pub mod {c.name} {{\n{c.code}\n}}"
        n = text.count("\n") + 1
        c.lines = (line, line + n - 1)
        out.append(text)
        line += n
    if runnable:
        body = "\n".join(f'    dxrt::run_case("{c.name}", {c.name}::run);' for c in cases)
        out.append("fn main() {\n    dxrt::init();\n" + body + "\n    dxrt::finish();\n}")
    return "\n".join(out) + "\n"


def _attribute(diag, cases):
    """Map a rustc JSON diagnostic to the case whose line range contains its primary span.
    Returns (case or None, summary dict)."""
    spans = diag.get("spans") or []
    prim = [s for s in spans if s.get("is_primary")] or spans
    in_exp = False
    macro_names = []
    line = None
    for s in prim:
        # walk to the outermost call site to find the line in the batch file
        e = s
        while e.get("expansion"):
            macro_names.append(e["expansion"].get("macro_decl_name"))
            e = e["expansion"]["span"]
        if line is None:
            line = e.get("line_start")
    in_exp = any(n and ("derive_ex" in n or "derive(Ex)" in n) for n in macro_names)
    summ = {"level": diag.get("level"), "code": (diag.get("code") or {}).get("code"),
            "message": diag.get("message"), "line": line, "in_derive_ex": in_exp,
            "macros": [m for m in macro_names if m], "children": [c.get("message") for c in diag.get("children", [])][:4]}
    if line is None:
        return None, summ
    for c in cases:
        if c.lines[0] <= line <= c.lines[1]:
            summ["rel"] = line - c.lines[0]      # line inside the case's own code (1 = its first line)
            return c, summ
    return None, summ


def compile_batch(cases, workdir, tag, header="", runnable=True, metadata_only=False, deny_warnings=False,
                  max_iters=12, timeout=900, extra_items="", keep_warnings=False):
    """Fix-point compile: cases with errors are recorded (status compile_fail, diags) and removed,
    the rest is recompiled until clean.  Returns path of the executable (or None) and the list of
    surviving cases.  Raises Inconclusive on harness-level trouble."""
    so = build_b()
    rt = build_rt()
    alive = list(cases)
    for c in alive:
        c.status = None
        c.diags = []
    src = os.path.join(workdir, f"{tag}.rs")
    exe = os.path.join(workdir, f"{tag}.bin")
    hdr = header
    if deny_warnings:
        hdr = "#![deny(warnings)]\n" + hdr
    for it in range(max_iters):
        if not alive:
            return None, []
        text = _render_batch(alive, hdr, runnable, extra_items)
        with open(src, "w") as f:
            f.write(text)
        cmd = ["rustc", "--edition", EDITION, "--crate-name", tag, "-C", "opt-level=0", "-C", "debuginfo=0",
               "-C", "codegen-units=4", "--error-format=json", "--extern", f"derive_ex={so}",
               "--extern", f"dxrt={rt}", "-L", CACHE, src]
        if not runnable:
            cmd += ["--crate-type", "lib", "--emit=metadata", "-o", os.path.join(workdir, f"lib{tag}.rmeta")]
        elif metadata_only:
            cmd += ["--emit=metadata", "-o", os.path.join(workdir, f"lib{tag}.rmeta")]
        else:
            cmd += ["-o", exe]
        try:
            r = sh(cmd, timeout=timeout)
        except subprocess.TimeoutExpired:
            raise Inconclusive(f"rustc watchdog ({timeout}s) on batch {tag}")
        bad = {}
        unattributed = []
        for l in r.stderr.splitlines():
            if not l.startswith("{"):
                continue
            try:
                d = json.loads(l)
            except ValueError:
                continue
            lvl = d.get("level")
            if lvl not in ("error", "warning"):
                continue
            if lvl == "warning" and not (deny_warnings or keep_warnings):
                continue
            if d.get("message", "").startswith("aborting due to") or "warning emitted" in d.get("message", "") \
                    or "warnings emitted" in d.get("message", ""):
                continue
            c, summ = _attribute(d, alive)
            if c is None:
                if lvl == "error":
                    unattributed.append(summ)
                continue
            if lvl == "warning" and not deny_warnings:
                c.diags.append(summ)
                continue
            bad.setdefault(c.name, (c, []))[1].append(summ)
        if r.returncode == 0 and not bad:
            for c in alive:
                if c.status is None:
                    c.status = "ok"
            return (exe if (runnable and not metadata_only) else None), alive
        if not bad:
            # rustc failed but nothing could be attributed: ICE, linker error, header error ...
            raise Inconclusive(f"rustc failed on batch {tag} without attributable diagnostics: "
                               + json.dumps(unattributed)[:1500] + r.stderr[-1500:])
        for name, (c, ds) in bad.items():
            c.status = "compile_fail"
            c.diags.extend(ds)
        alive = [c for c in alive if c.name not in bad]
    raise Inconclusive(f"batch {tag} did not reach a fix-point in {max_iters} iterations")


def run_batch(exe, cases, timeout=600):
    """Run the compiled batch, parse the event log, attach events to cases."""
    try:
        r = subprocess.run([exe], capture_output=True, text=True, timeout=timeout, env=ENV)
    except subprocess.TimeoutExpired:
        raise Inconclusive(f"watchdog ({timeout}s) running {exe}")
    by = {c.name: c for c in cases}
    for c in cases:
        c.events = []
    glob = []
    for l in r.stdout.splitlines():
        if not l.startswith("{"):
            continue
        try:
            e = json.loads(l)
        except ValueError:
            raise Inconclusive("event log line is not JSON (truncated log?): " + l[:200])
        c = by.get(e.get("c"))
        if c is not None:
            c.events.append(e)
        else:
            glob.append(e)
    if r.returncode != 0:
        raise Inconclusive(f"{exe} exited {r.returncode}: {r.stderr[-1500:]}")
    if not any(e.get("k") == "finish" for e in glob):
        raise Inconclusive("event log has no finish marker")
    return glob


def run_cases(cases, tag, header="", batch_size=60, runnable=True, metadata_only=False,
              deny_warnings=False, extra_items="", keep=False, keep_warnings=False):
    """Split into batches, compile + run them on NPROC workers.  Returns (global events, inconclusive notes)."""
    build_b()
    build_rt()
    work = tempfile.mkdtemp(prefix=f"dx-{tag}-", dir=_scratch())
    batches = [cases[i:i + batch_size] for i in range(0, len(cases), batch_size)]
    notes = []
    globs = []

    def one(ib):
        i, b = ib
        t = f"{tag}_{i}"
        try:
            exe, alive = compile_batch(b, work, t, header=header, runnable=runnable, metadata_only=metadata_only,
                                       deny_warnings=deny_warnings, extra_items=extra_items,
                                       keep_warnings=keep_warnings)
            if exe:
                g = run_batch(exe, alive)
                return g, None
            return [], None
        except Inconclusive as e:
            for c in b:
                if c.status is None or c.status == "ok":
                    c.status = "inconclusive"
            return [], str(e)

    try:
        with ThreadPoolExecutor(max_workers=NPROC) as ex:
            for g, note in ex.map(one, list(enumerate(batches))):
                globs.extend(g)
                if note:
                    notes.append(note)
    finally:
        if not (keep or os.environ.get("DX_KEEP")):
            shutil.rmtree(work, ignore_errors=True)
    return globs, notes


def blame(case):
    """For a case that failed to compile: ('macro', diag) if some error is located in derive_ex's output or is a
    message of derive_ex itself (compile_error!, no error code); ('harness', diag) otherwise - then the generated
    program itself is at fault and the case is inconclusive, never a violation."""
    errs = [d for d in case.diags if d["level"] == "error"]
    for d in errs:
        if d["in_derive_ex"]:
            return "macro", d
    for d in errs:
        if d["code"] is None and not (d["message"] or "").startswith(("cannot find", "expected", "unresolved", "mismatched closing")):
            return "macro", d
    return "harness", (errs[0] if errs else {"message": "?", "code": None})


def _scratch():
    d = os.path.join(CACHE, "scratch")
    os.makedirs(d, exist_ok=True)
    return d


def compile_single(code, runnable=True, header="", deny_warnings=False, extra_items=""):
    """Isolation re-run of one case.  Returns the Case (status/diags/events filled)."""
    c = Case("c0", code)
    run_cases([c], "iso", header=header, batch_size=1, runnable=runnable, metadata_only=not runnable,
              deny_warnings=deny_warnings, extra_items=extra_items)
    return c


# --------------------------------------------------------------------------
# verdicts, evidence, replay, known findings
# --------------------------------------------------------------------------

def load_known():
    p = os.path.join(ROOT, "known_findings.json")
    try:
        return json.load(open(p)).get("findings", [])
    except OSError:
        return []


class Report:
    def __init__(self, pid, tier, seed):
        self.pid = pid
        self.tier = tier
        self.seed = seed
        self.t0 = time.time()
        self.evaluations = 0
        self.nontrivial = set()
        self.rule = ""
        self.samples = []
        self.extra = {}
        self.events = {}
        self.violations = []   # (signature, what, replay dict)
        self.inconclusive = []
        self.canary = None
        self.exhaustive = None
        self.assumptions = []
        self.known_hit = {}

    def count(self, kind, n=1):
        self.events[kind] = self.events.get(kind, 0) + n

    def sample(self, s, cap=4):
        if len(self.samples) < cap:
            self.samples.append(s)

    def violation(self, signature, what, replay):
        self.violations.append((signature, what, replay))

    def inconcl(self, note):
        self.inconclusive.append(str(note)[:600])

    def finish(self, floor=1, harness_failed=False):
        """Write evidence, print verdict lines, return the process exit code."""
        known = [k for k in load_known() if k.get("property") == self.pid and k.get("status") == "known"]
        known_sigs = {k["signature"]: k for k in known}
        new = []
        seen_known = {}
        for sig, what, replay in self.violations:
            if sig in known_sigs:
                seen_known.setdefault(sig, 0)
                seen_known[sig] += 1
            else:
                new.append((sig, what, replay))
        for sig, n in seen_known.items():
            print(f"KNOWN-FINDING: property={self.pid} {known_sigs[sig]['what']} [{sig}] ({n} cases)")
        rc = 0
        written = set()
        for sig, what, replay in new:
            h = re.sub(r"[^A-Za-z0-9_.-]+", "_", sig)[:80] + "-" + hashlib.sha1(sig.encode()).hexdigest()[:8]
            if h in written:
                continue
            written.add(h)
            d = os.path.join(OUT, "replays", self.pid)
            os.makedirs(d, exist_ok=True)
            path = os.path.join(d, h + ".json")
            with open(path, "w") as f:
                json.dump({"property": self.pid, "signature": sig, "what": what, "seed": self.seed,
                           "tier": self.tier, "replay": replay}, f, indent=1)
            print(f"VIOLATION property={self.pid} replay={path}")
            print(f"  signature: {sig}\n  what: {what}"[:1200])
            rc = 1
        for n in self.inconclusive[:10]:
            print(f"INCONCLUSIVE property={self.pid} {n[:300]}")
        dn = len(self.nontrivial)
        if rc == 0 and (self.evaluations < floor or dn < 2):
            print(f"INCONCLUSIVE property={self.pid} observed too little: evaluations={self.evaluations} distinct_nontrivial={dn} (floor {floor})")
            rc = 2
        if rc == 0 and harness_failed:
            rc = 2
        if rc == 0 and self.canary is False:
            print(f"INCONCLUSIVE property={self.pid} canary was not detected by the checker")
            rc = 2
        cov = {"evaluations": int(self.evaluations), "distinct_nontrivial": int(dn), "rule": self.rule,
               "samples": self.samples or ["<none>"], "events": self.events,
               "inconclusive": len(self.inconclusive), "inconclusive_notes": self.inconclusive[:5],
               "canary_detected": self.canary,
               "known_findings_seen": {k: v for k, v in seen_known.items()},
               "new_violation_signatures": sorted({s for s, _, _ in new})[:50]}
        if self.exhaustive is not None:
            cov["exhaustive"] = bool(self.exhaustive)
        cov.update(self.extra)
        ev = {"property_id": self.pid, "tier": self.tier, "seed": int(self.seed), "level": "exploration",
              "coverage": cov, "assumptions": self.assumptions, "wall_s": round(time.time() - self.t0, 2),
              "violations": len(new)}
        os.makedirs(os.path.join(OUT, "evidence"), exist_ok=True)
        with open(os.path.join(OUT, "evidence", f"{self.pid}.json"), "w") as f:
            json.dump(ev, f, indent=1, default=str)
        verdict = {0: "held", 1: "VIOLATED", 2: "inconclusive"}[rc]
        print(f"[{self.pid}] {verdict}: evaluations={self.evaluations} distinct_nontrivial={dn} "
              f"events={json.dumps(self.events)} inconclusive={len(self.inconclusive)} "
              f"known={sum(seen_known.values())} wall={time.time()-self.t0:.1f}s")
        return rc


def rng_for(pid, seed):
    return random.Random(f"{pid}:{seed}")
