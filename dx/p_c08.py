"""C08 — operators derived from a struct act field-wise in all reference forms (E-run, term algebra)."""
import json

from . import common as C

FLOOR = {"quick": 1500, "thorough": 8000}
HEADER = "#![allow(warnings)]"
TERM = "::dxrt::Term"
W = "::dxrt::W"
WVALS = [(0, 3), (250, 7), (9, 0), (255, 255)]


def wop(op, a, b):
    m = 0xFF
    return {"Add": (a + b) & m, "Sub": (a - b) & m, "Mul": (a * b) & m, "Div": a // (b | 1), "Rem": a % (b | 1),
            "BitAnd": a & b, "BitOr": a | b, "BitXor": a ^ b, "Shl": (a << (b % 8)) & m, "Shr": a >> (b % 8)}[op]


def wun(op, a):
    return (-a) & 0xFF if op == "Neg" else (~a) & 0xFF


REV_NAMES = ["zf", "yf", "xf", "wf", "vf", "uf", "tf", "sf", "rf", "qf", "pf", "of"]


BOUND_FORMS = [None, "trait()", "trait(..)", "common()", "common(..)", "field()", "field(..)", "field-bare"]


def make_spec(ops, style, ftypes, generic=False, entry="attr", names="f", bound=None, bfield=0):
    """names: "f" -> f0, f1, .. (declaration order = sorted order up to 10 fields); "rev" -> names whose sorted order is the
    reverse of the declaration order."""
    # bound: an explicit bound(..) argument that changes nothing for these field types: `Op(bound())` / `Op(bound(..))` on the
    # trait, shared `bound()` / `bound(..)`, or a field-level `#[derive_ex(Op(bound..))]` / bare `#[derive_ex(Op)]` on field `bfield`
    if generic and bound in ("trait()", "common()", "field()"):
        bound = bound[:-1] + "..)"      # without `..` the default bounds a generic type needs would be gone
    if not ftypes and bound and bound.startswith("field"):
        bound = None
    return {"ops": ops, "style": style, "ftypes": ftypes, "generic": generic, "entry": entry, "names": names,
            "bound": bound, "bfield": (bfield % len(ftypes)) if ftypes else 0,
            # Debug co-derived, with #[debug(ignore)] on field `bfield`: the operators still act on that field
            "co": bool(ftypes) and (bfield * 7 + len(ftypes) + len(ops)) % 5 == 0}


def fname(spec, i):
    return REV_NAMES[i] if spec.get("names") == "rev" else f"f{i}"


def type_text(spec):
    n = len(spec["ftypes"])
    tys = []
    for t in spec["ftypes"]:
        # sterm / sw: the same two types, spelled through `Self` (a projection of a trait the struct implements)
        tys.append({"term": TERM, "w": W, "T": "T", "U": "U", "sterm": "<Self as HasTy>::A", "sw": "<Self as HasTy>::B", "fwdT": "::dxrt::Fwd<T>"}[t])
    g = ""
    if spec["generic"]:
        ps = sorted({"T" if t == "fwdT" else t for t in spec["ftypes"] if t in ("T", "U", "fwdT")})
        g = "<" + ", ".join(ps) + ">"
    b = spec.get("bound") or ""
    arg = "bound(..)" if b.endswith("(..)") else "bound()"
    els = [f"{o}({arg})" if b.startswith("trait") else o for o in spec["ops"]]
    if spec.get("co"):
        els = els + ["Debug"] if len(spec["ops"]) % 2 else ["Debug"] + els
    tl = ", ".join(els) + (f", {arg}" if b.startswith("common") else "")
    if b.startswith("field"):
        fl = ", ".join(o if b == "field-bare" else f"{o}({arg})" for o in spec["ops"])
        fattr = {spec["bfield"]: f"#[derive_ex({fl})] "}
    else:
        fattr = {}
    if spec.get("co"):
        fattr[spec["bfield"]] = fattr.get(spec["bfield"], "") + "#[debug(ignore)] "
    head = f"#[::derive_ex::derive_ex({tl})]\n" if spec["entry"] == "attr" else f"#[derive(::derive_ex::Ex)]\n#[derive_ex({tl})]\n"
    tail = ""
    if any(t in ("sterm", "sw") for t in spec["ftypes"]):
        tail = f"\npub trait HasTy {{ type A; type B; }}\nimpl{g} HasTy for Ty{g} {{ type A = {TERM}; type B = {W}; }}"
    if spec["style"] == "unit":
        return head + "pub struct Ty;"
    if spec["style"] == "tuple":
        return head + f"pub struct Ty{g}(" + ", ".join(fattr.get(i, "") + t for i, t in enumerate(tys)) + ");" + tail
    return head + f"pub struct Ty{g} {{ " + ", ".join(f"{fattr.get(i, '')}{fname(spec, i)}: {t}" for i, t in enumerate(tys)) + " }" + tail


def inst(spec):
    if not spec["generic"]:
        return "Ty"
    ps = sorted({"T" if t == "fwdT" else t for t in spec["ftypes"] if t in ("T", "U", "fwdT")})
    return "Ty<" + ", ".join(TERM if p == "T" else W for p in ps) + ">"


def fkind(spec, i):
    t = spec["ftypes"][i]
    return {"term": "term", "w": "w", "T": "term", "U": "w", "sterm": "term", "sw": "w", "fwdT": "term"}[t]


def mk(spec, side, pair):
    vals = []
    for i in range(len(spec["ftypes"])):
        if spec["ftypes"][i] == "fwdT":
            vals.append(f'::dxrt::Fwd({TERM}::new("{side}{i}"))')
        elif fkind(spec, i) == "term":
            vals.append(f'{TERM}::new("{side}{i}")')
        else:
            vals.append(f"{W}({WVALS[(pair + i) % len(WVALS)][0 if side == 'a' else 1]})")
    if spec["style"] == "unit":
        return "Ty"
    if spec["style"] == "tuple":
        return "Ty(" + ", ".join(vals) + ")"
    return "Ty { " + ", ".join(f"{fname(spec, i)}: {v}" for i, v in enumerate(vals)) + " }"


def dump_fn(spec):
    parts = []
    for i in range(len(spec["ftypes"])):
        acc = f"x.{fname(spec, i)}" if spec["style"] == "named" else f"x.{i}"
        if spec["ftypes"][i] == "fwdT":
            parts.append(f"{acc}.0.0.clone()")
        elif fkind(spec, i) == "term":
            parts.append(f"{acc}.0.clone()")
        else:
            parts.append(f"format!(\"{{}}\", {acc}.0)")
    body = "vec![" + ", ".join(parts) + "]" if parts else "::std::vec::Vec::<::std::string::String>::new()"
    return f"fn dump(x: &{inst(spec)}) -> ::std::vec::Vec<::std::string::String> {{ {body} }}"


def run_code(spec):
    out = [dump_fn(spec), "pub fn run() {"]
    T = inst(spec)
    for pair in range(2 if any(fkind(spec, i) == "w" for i in range(len(spec["ftypes"]))) else 1):
        a, b = mk(spec, "a", pair), mk(spec, "b", pair)
        for op in spec["ops"]:
            if op in C.BINOPS:
                sym = C.OPSYM[op]
                for form, le, re in (("vv", "a", "b"), ("vr", "a", "&b"), ("rv", "&a", "b"), ("rr", "&a", "&b")):
                    out.append(f'{{ let a: {T} = {a}; let b: {T} = {b}; let _ = ::dxrt::take_trace(); let r: {T} = {le} {sym} {re}; let t = ::dxrt::take_trace();'
                               f' let da = {"dump(&a)" if le.startswith("&") else "::std::vec::Vec::new()"}; let db = {"dump(&b)" if re.startswith("&") else "::std::vec::Vec::new()"};'
                               f' ::dxrt::ev!("op", "op" => "{op}", "form" => "{form}", "pair" => {pair}, "res" => dump(&r), "trace" => t, "da" => da, "db" => db); }}')
            elif op in C.ASSIGNOPS:
                sym = C.OPSYM[op[:-6]] + "="
                for form, re in (("v", "b"), ("r", "&b")):
                    out.append(f'{{ let mut a: {T} = {a}; let b: {T} = {b}; let _ = ::dxrt::take_trace(); a {sym} {re}; let t = ::dxrt::take_trace();'
                               f' let db = {"dump(&b)" if re.startswith("&") else "::std::vec::Vec::new()"};'
                               f' ::dxrt::ev!("op", "op" => "{op}", "form" => "{form}", "pair" => {pair}, "res" => dump(&a), "trace" => t, "da" => ::std::vec::Vec::<::std::string::String>::new(), "db" => db); }}')
            else:
                sym = C.OPSYM[op]
                for form, le in (("v", "a"), ("r", "&a")):
                    out.append(f'{{ let a: {T} = {a}; let _ = ::dxrt::take_trace(); let r: {T} = {sym}{le}; let t = ::dxrt::take_trace();'
                               f' let da = {"dump(&a)" if le.startswith("&") else "::std::vec::Vec::new()"};'
                               f' ::dxrt::ev!("op", "op" => "{op}", "form" => "{form}", "pair" => {pair}, "res" => dump(&r), "trace" => t, "da" => da, "db" => ::std::vec::Vec::<::std::string::String>::new()); }}')
    out.append("}")
    return "\n".join(out)


def render(spec):
    return type_text(spec) + "\n" + run_code(spec)


def control(spec):
    """Same program, derive_ex replaced by hand-written stub impls of every form: the harness itself must compile."""
    t = type_text(spec)
    t = "\n".join(l for l in t.splitlines() if not l.startswith("#["))
    import re
    t = re.sub(r"#\[derive_ex\(.*?\)\] ", "", t).replace("#[debug(ignore)] ", "")
    g = ""
    if spec["generic"]:
        ps = sorted({"T" if x == "fwdT" else x for x in spec["ftypes"] if x in ("T", "U", "fwdT")})
        g = "<" + ", ".join(ps) + ">"
    me = "Ty" + g
    out = [t]
    for op in spec["ops"]:
        if op in C.BINOPS:
            fn = C.OPFN[op]
            for l in (me, "&" + me):
                for r in (me, "&" + me):
                    out.append(f"impl{g} ::core::ops::{op}<{r}> for {l} {{ type Output = {me}; fn {fn}(self, _: {r}) -> {me} {{ loop {{}} }} }}")
        elif op in C.ASSIGNOPS:
            fn = C.OPFN[op[:-6]] + "_assign"
            for r in (me, "&" + me):
                out.append(f"impl{g} ::core::ops::{op}<{r}> for {me} {{ fn {fn}(&mut self, _: {r}) {{ loop {{}} }} }}")
        else:
            fn = C.OPFN[op]
            for l in (me, "&" + me):
                out.append(f"impl{g} ::core::ops::{op} for {l} {{ type Output = {me}; fn {fn}(self) -> {me} {{ loop {{}} }} }}")
    return "\n".join(out) + "\n" + run_code(spec).replace("pub fn run() {", "pub fn run() { if true { return; }")


def expected(spec, op, pair):
    res = []
    for i in range(len(spec["ftypes"])):
        if fkind(spec, i) == "term":
            if op in C.BINOPS:
                res.append(f"(a{i} {C.OPSYM[op]} b{i})")
            elif op in C.ASSIGNOPS:
                res.append(f"(a{i} {C.OPSYM[op[:-6]]}= b{i})")
            else:
                res.append(f"({C.OPSYM[op]}a{i})")
        else:
            av, bv = WVALS[(pair + i) % len(WVALS)]
            if op in C.BINOPS:
                res.append(str(wop(op, av, bv)))
            elif op in C.ASSIGNOPS:
                res.append(str(wop(op[:-6], av, bv)))
            else:
                res.append(str(wun(op, av)))
    return res


def operand_dump(spec, side, pair):
    out = []
    for i in range(len(spec["ftypes"])):
        if fkind(spec, i) == "term":
            out.append(f"{side}{i}")
        else:
            out.append(str(WVALS[(pair + i) % len(WVALS)][0 if side == "a" else 1]))
    return out


def check_case(spec, events):
    bad = []
    seen = set()
    nterm = sum(1 for i in range(len(spec["ftypes"])) if fkind(spec, i) == "term")
    for e in events:
        if e.get("k") != "op":
            continue
        op, form, pair = e["op"], e["form"], e["pair"]
        seen.add((op, form))
        exp = expected(spec, op, pair)
        if e["res"] != exp:
            bad.append((f"result:{op}:{form}", exp, e["res"]))
        fn = C.OPFN[op[:-6]] + "_assign" if op in C.ASSIGNOPS else C.OPFN[op]
        calls = [t for t in e["trace"] if not t.startswith("tclone") and not t.startswith("drop")]
        if len(calls) != nterm or any(not t.startswith(fn + ":") for t in calls):
            bad.append((f"call-count:{op}:{form}", f"{nterm} x {fn}", calls))
        elif any(t != f"{fn}:{form}" for t in calls):
            # a borrowed operand lends its fields, an owned one gives them: `T op &T` applies `F op &F` to the fields
            bad.append((f"field-operator-form:{op}:{form}", f"{fn}:{form}", calls))
        if any(t.startswith("tclone") for t in e["trace"]):
            bad.append((f"clone-in-fieldwise-op:{op}:{form}", "no clone", e["trace"]))
        if e["da"] and e["da"] != operand_dump(spec, "a", pair):
            bad.append((f"borrowed-lhs-changed:{op}:{form}", operand_dump(spec, "a", pair), e["da"]))
        if e["db"] and e["db"] != operand_dump(spec, "b", pair):
            bad.append((f"borrowed-rhs-changed:{op}:{form}", operand_dump(spec, "b", pair), e["db"]))
    for op in spec["ops"]:
        forms = ["vv", "vr", "rv", "rr"] if op in C.BINOPS else ["v", "r"]
        for f in forms:
            if (op, f) not in seen:
                bad.append((f"missing-observation:{op}:{f}", "", ""))
    return bad


def corpus(tier, rng):
    specs = []
    allops = C.BINOPS + C.ASSIGNOPS + C.UNOPS
    k = 0
    for op in allops:
        for style, ns in (("unit", [0]), ("tuple", [0, 1, 2, 3, 4]), ("named", [0, 1, 2, 3, 4])):
            for n in ns:
                k += 1
                ft = ["term" if (i + k) % 3 else "w" for i in range(n)]
                if n and "term" not in ft:
                    ft[0] = "term"
                specs.append(make_spec([op], style, ft, entry="attr" if k % 2 else "derive", names="rev" if (style == "named" and k % 4 < 2) else "f",
                                       bound=BOUND_FORMS[k % len(BOUND_FORMS)] if n >= 2 else None, bfield=1 + k // 3))
        # more than ten fields: member names / indices whose text order differs from the declaration order (f10 < f2, "10" < "2")
        for style in ("tuple", "named"):
            k += 1
            specs.append(make_spec([op], style, ["term" if (i + k) % 4 else "w" for i in range(11 + k % 2)], entry="attr" if k % 2 else "derive"))
    # field types spelled through `Self` (the impls for `&Ty` must not read it as `&Ty`), every operator
    for op in allops:
        k += 1
        specs.append(make_spec([op], "named" if k % 2 else "tuple", ["sterm", "w", "sw"][: 2 + k % 2], entry="attr" if k % 3 else "derive"))
    specs.append(make_spec(["Add", "SubAssign", "Neg"], "named", ["T", "sterm", "sw"], True, "attr"))
    # a field type whose spelling contains a later field's type (`Fwd<T>` in front of `T`): each needs its own predicate
    for k2, op in enumerate(C.BINOPS + C.ASSIGNOPS):
        specs.append(make_spec([op], "tuple" if k2 % 2 else "named", ["fwdT", "T", "w"][: 2 + k2 % 2], True, "attr" if k2 % 3 else "derive"))
    nextra = 150 if tier == "quick" else 1500
    for _ in range(nextra):
        n = rng.randint(1, 4)
        generic = rng.random() < 0.5
        ft = [rng.choice(["T", "U", "term", "w", "sterm"] if generic else ["term", "w", "term", "w", "sterm", "sw"]) for _ in range(n)]
        generic = any(t in ("T", "U") for t in ft)
        ops = rng.sample(allops, rng.randint(1, 5))
        specs.append(make_spec(ops, rng.choice(["tuple", "named"]), ft, generic, rng.choice(["attr", "derive"]), rng.choice(["f", "rev"]),
                               bound=rng.choice(BOUND_FORMS + [None, None]), bfield=rng.randrange(4)))
    return specs


def run(rep, tier, rng):
    specs = corpus(tier, rng)
    cases = [C.Case(f"c{i}", render(s), {"spec": s}) for i, s in enumerate(specs)]
    ctls = [C.Case(f"k{i}", control(s), {}) for i, s in enumerate(specs)]
    _, notes = C.run_cases(cases + ctls, "c08", header=HEADER, batch_size=60)
    ctl_ok = {c.name[1:]: c.status == "ok" for c in ctls}
    rep.count("controls_compiled", sum(ctl_ok.values()))
    rep.count("controls_rejected", sum(1 for v in ctl_ok.values() if not v))
    for n in notes:
        rep.inconcl(n)
    sigs = {}
    for c in cases:
        s = c.meta["spec"]
        if c.status == "inconclusive":
            continue
        if c.status == "compile_fail":
            who, d0 = C.blame(c)
            if who == "harness" and not ctl_ok.get(c.name[1:]):
                rep.inconcl(f"generated program does not compile and neither does its hand-written control: {str(d0['message'])[:150]}")
                continue
            msg, code = d0["message"] or "", str(d0["code"])
            sigs.setdefault(f"C08|compile_fail|{code}|{msg[:50]}", []).append((c, f"does not compile: {msg[:200]}"))
            continue
        rep.count("types_run")
        bad = check_case(s, c.events)
        nobs = sum(1 for e in c.events if e.get("k") == "op")
        rep.evaluations += nobs
        rep.count("operator_applications_observed", nobs)
        for e in c.events:
            if e.get("k") == "op":
                rep.nontrivial.add((e["op"], e["form"], s["style"], len(s["ftypes"]), s["generic"]))
        for b in bad:
            sigs.setdefault(f"C08|{b[0]}|{s['style']}", []).append((c, f"{b[0]}: expected {b[1]} observed {b[2]}"))
    for sig, lst in list(sigs.items())[:30]:
        c, what = lst[0]
        again = C.compile_single(c.code, header=HEADER)
        if again.status == "compile_fail" and "compile_fail" in sig or (again.status == "ok" and check_case(c.meta["spec"], again.events)):
            rep.violation(sig, f"{what}: {c.code.splitlines()[0]} {c.code.splitlines()[1][:160]} [{len(lst)} cases]",
                          {"spec": c.meta["spec"], "code": c.code})
        else:
            rep.inconcl(f"did not reproduce in isolation: {sig}")
    for c in cases[:1] + cases[100:101] + cases[-1:]:
        rep.sample({"source": "\n".join(c.code.splitlines()[:3]), "first_event": next((e for e in c.events if e.get("k") == "op"), None)})
    # canary: an expectation with swapped operands must be flagged
    c = next(c for c in cases if c.status == "ok" and c.meta["spec"]["ops"] == ["Sub"] and len(c.meta["spec"]["ftypes"]) >= 2)
    ev = json.loads(json.dumps(c.events))
    for e in ev:
        if e.get("k") == "op" and e["form"] == "rv":
            e["res"] = [x.replace("a", "\0").replace("b", "a").replace("\0", "b") for x in e["res"]]
    rep.canary = any(b[0].startswith("result:Sub:rv") for b in check_case(c.meta["spec"], ev))
    rep.exhaustive = True
    rep.rule = ("complete over 22 operator traits x {unit, tuple(0-4), named(0-4), tuple/named(11-12)} with free-term-algebra fields "
                "(non-commutative, call-recording) and wrapping-integer fields, plus generic / mixed / multi-operator types; named "
                "structs are declared both with field names in sorted order and in reverse-sorted order; field types are also spelled through `Self` (`<Self as HasTy>::A`); "
                "every owned/reference form is applied and the logged result, per-field operator call trace and borrowed "
                "operands are compared with the field-wise expectation. evaluations = operator applications observed; "
                "distinct_nontrivial = distinct (operator, form, struct kind, arity, generic).")


def replay(rep, path):
    j = json.load(open(path))["replay"]
    c = C.compile_single(j["code"], header=HEADER)
    if c.status == "compile_fail" or (c.status == "ok" and check_case(j["spec"], c.events)):
        print(f"VIOLATION property=C08 replay={path}")
        return 1
    print("replay: no violation")
    return 0
