"""C02 — accepted attribute combinations give mutually coherent Eq/Ord/Hash impls (E-exp filter + E-run laws)."""
import json

from . import common as C
from . import cmpmodel as M
from . import p_c05

FLOOR = {"quick": 60000, "thorough": 60000}
NSAMPLE = {"quick": 6000, "thorough": None}
HEADER = "#![allow(warnings)]"
V = "::dxrt::V"
F0 = [f"{V}({i})" for i in range(6)]
F1 = [f"{V}({i})" for i in range(3)]


def item_text(combo, subset, placement, first, entry):
    by = p_c05.BY
    if nan_field(subset) and M.source("PartialEq", combo) == ("by", "partial_ord") and M.source("PartialOrd", combo) == ("by", "partial_ord"):
        # `==` and `partial_cmp` both come from the one partial_ord(by = ..) function: let it be a partial one (None on V(5))
        by = dict(by, partial_ord="::dxrt::by_pcmp_nan")
    attrs = " ".join(M.render_attrs(combo, p_c05.KEY, by))
    fa, fb = (f"{attrs} f0: {V}", f"f1: {V}") if first else (f"f0: {V}", f"{attrs} f1: {V}")
    # only PartialEq / PartialOrd derived: a third, float-like field (P(9) is its NaN) - values that are not equal to themselves
    fc = f", f2: {PF}" if nan_field(subset) else ""
    body = f"{{ {fa}, {fb}{fc} }}"
    if placement == "struct":
        item = f"pub struct Ty {body}"
    elif placement == "enum":
        item = f"pub enum Ty {{ V0 {body}, V1 }}"
    elif placement == "enumm":
        # an explicit discriminant on the first variant only, equal to the position of the second one
        item = f"#[repr(u8)] pub enum Ty {{ V0 {body} = 1, V1, V2({V}), V3 }}"
    else:
        # explicit discriminants that decrease in declaration order: every derived order is still by declaration
        item = f"#[repr(u8)] pub enum Ty {{ V0 {body} = 7, V1 = 3, V2({V}) = 5, V3 = 0 }}"
    tl = ", ".join(subset)
    return item, tl


PF = "::dxrt::P"


def nan_field(subset):
    return all(t in ("PartialEq", "PartialOrd") for t in subset)


def obs_block(vals, subset):
    obs = [f"let vals: ::std::vec::Vec<Ty> = vec![{', '.join(vals)}];"]
    if "PartialEq" in subset:
        obs.append('let mut s = ::std::string::String::new(); for a in &vals { for b in &vals { s.push(::dxrt::bool_c(a == b)); } } ::dxrt::ev!("mat", "op" => "eq", "m" => s);')
    if "PartialOrd" in subset:
        obs.append('let mut s = ::std::string::String::new(); for a in &vals { for b in &vals { s.push(::dxrt::pord_c(a.partial_cmp(b))); } } ::dxrt::ev!("mat", "op" => "pcmp", "m" => s);')
    if "Ord" in subset:
        obs.append('let mut s = ::std::string::String::new(); for a in &vals { for b in &vals { s.push(::dxrt::ord_c(::core::cmp::Ord::cmp(a, b))); } } ::dxrt::ev!("mat", "op" => "cmp", "m" => s);')
        obs.append('let mut m = ::std::collections::BTreeMap::new(); for (i, a) in vals.iter().enumerate() { m.insert(a, i); } ::dxrt::ev!("btree", "len" => m.len());')
    if "Hash" in subset:
        obs.append('let mut l = ::std::vec::Vec::new(); for a in &vals { l.push(::dxrt::RecHasher::of(a)); } ::dxrt::ev!("feeds", "l" => l);')
        if "Eq" in subset:
            obs.append('let mut m = ::std::collections::HashMap::new(); for (i, a) in vals.iter().enumerate() { m.insert(a, i); } ::dxrt::ev!("hashmap", "len" => m.len());')
    return obs


def code_for(combo, subset, placement, first, entry):
    item, tl = item_text(combo, subset, placement, first, entry)
    parts = [tl]
    if len(subset) >= 2 and (len(tl) + len(str(combo))) % 3 == 0:
        # the trait list split over two stacked attributes: the helper attributes still apply to both halves
        k = 1 + len(str(combo)) % (len(subset) - 1)
        parts = [", ".join(subset[:k]), ", ".join(subset[k:])]
    if entry == "attr":
        head = f"#[::derive_ex::derive_ex({parts[0]})]\n" + "".join(f"#[derive_ex({x})]\n" for x in parts[1:])
    else:
        head = "#[derive(::derive_ex::Ex)]\n" + "".join(f"#[derive_ex({x})]\n" for x in parts)
    ctor = "Ty" if placement == "struct" else "Ty::V0"
    # the attributed field gets the 6-value domain (3 key classes), the plain one 3 values
    da, db = (F0, F1) if first else (F1, F0)
    if nan_field(subset):
        vals = [f"{ctor} {{ f0: {a}, f1: {b}, f2: {c} }}" for a in da[:4] + da[5:] for b in db[:2] for c in (f"{PF}(0)", f"{PF}(9)")]
    else:
        vals = [f"{ctor} {{ f0: {a}, f1: {b} }}" for a in da for b in db]
    if placement == "enum":
        vals.append("Ty::V1")
    elif placement in ("enumd", "enumm"):
        vals += ["Ty::V1", f"Ty::V2({V}(0))", f"Ty::V2({V}(1))", "Ty::V3"]
    obs = obs_block(vals, subset)
    return head + item + "\npub fn run() {\n" + "\n".join(obs) + "\n}"


LAYOUT_OPTS = [("-",) * 5, ("ignore", "-", "-", "-", "-"), ("reverse", "-", "-", "-", "-"), ("key", "-", "-", "-", "-"), ("reverse+key", "-", "-", "-", "-")]


def layout_code(layout, subset, kind, entry):
    """Several attributed fields at once (the matrix above has one attributed field next to a plain one): every field of a
    3-field struct / variant carries one of: nothing, ord(ignore), ord(reverse), ord(key), ord(key, reverse)."""
    fs = []
    for i, combo in enumerate(layout):
        attrs = " ".join(M.render_attrs(combo, p_c05.KEY, p_c05.BY))
        fs.append(f"{attrs} f{i}: {V}".strip())
    body = "{ " + ", ".join(fs) + " }"
    item = f"pub struct Ty {body}" if kind == "struct" else f"pub enum Ty {{ V1, V0 {body}, V2({V}) }}"
    tl = ", ".join(subset)
    head = f"#[::derive_ex::derive_ex({tl})]\n" if entry == "attr" else f"#[derive(::derive_ex::Ex)]\n#[derive_ex({tl})]\n"
    ctor = "Ty" if kind == "struct" else "Ty::V0"
    doms = [F0[:3], F1[:2], F0[1:4]]
    vals = [f"{ctor} {{ f0: {a}, f1: {b}, f2: {c} }}" for a in doms[0] for b in doms[1] for c in doms[2]]
    if kind == "enum":
        vals += ["Ty::V1", f"Ty::V2({V}(1))"]
    return head + item + "\npub fn run() {\n" + "\n".join(obs_block(vals, subset)) + "\n}"


REVC = {"L": "G", "G": "L", "E": "E"}


def check_laws(events, subset):
    """Returns list of (law, witness)."""
    mats = {e["op"]: e["m"] for e in events if e.get("k") == "mat"}
    feeds = next((e["l"] for e in events if e.get("k") == "feeds"), None)
    eq, pc, cm = mats.get("eq"), mats.get("pcmp"), mats.get("cmp")
    m = eq or pc or cm
    if m is None and feeds is None:
        return [("no-observations", None)]
    n = int(round(len(m) ** 0.5)) if m else len(feeds)
    R = range(n)
    bad = []

    def at(mat, i, j):
        return mat[i * n + j]
    if eq and pc:
        for i in R:
            for j in R:
                if (at(eq, i, j) == "1") != (at(pc, i, j) == "E"):
                    bad.append(("eq<=>partial_cmp==Equal", (i, j)))
                    break
            else:
                continue
            break
    if eq and cm:
        w = next(((i, j) for i in R for j in R if (at(eq, i, j) == "1") != (at(cm, i, j) == "E")), None)
        if w:
            bad.append(("eq<=>cmp==Equal", w))
    if pc and cm:
        w = next(((i, j) for i in R for j in R if at(pc, i, j) != at(cm, i, j)), None)
        if w:
            bad.append(("partial_cmp==Some(cmp)", w))
    if eq and feeds:
        w = next(((i, j) for i in R for j in R if at(eq, i, j) == "1" and feeds[i] != feeds[j]), None)
        if w:
            bad.append(("eq=>same-hash-feed", w))
    if eq:
        w = next(((i, j) for i in R for j in R if at(eq, i, j) != at(eq, j, i)), None)
        if w:
            bad.append(("eq-symmetric", w))
        if "Eq" in subset:
            w = next((i for i in R if at(eq, i, i) != "1"), None)
            if w is not None:
                bad.append(("eq-reflexive", w))
        w = next(((i, j, k) for i in R for j in R if at(eq, i, j) == "1" for k in R
                  if at(eq, j, k) == "1" and at(eq, i, k) != "1"), None)
        if w:
            bad.append(("eq-transitive", w))
    if cm:
        w = next(((i, j) for i in R for j in R if at(cm, i, j) != REVC[at(cm, j, i)]), None)
        if w:
            bad.append(("cmp-antisymmetric", w))
        w = next(((i, j, k) for i in R for j in R if at(cm, i, j) in "LE" for k in R
                  if at(cm, j, k) in "LE" and not (at(cm, i, k) in "LE")), None)
        if w:
            bad.append(("cmp-transitive", w))
        w = next(((i, j, k) for i in R for j in R if at(cm, i, j) == "E" for k in R
                  if at(cm, i, k) != at(cm, j, k)), None)
        if w:
            bad.append(("cmp-equal-elements-order-alike", w))
    # structural monitors: maps must hold exactly one key per ==-class
    if eq and not any(b[0].startswith("eq-") for b in bad):
        classes = len({min(j for j in R if at(eq, i, j) == "1") if at(eq, i, i) == "1" else -1 - i for i in R})
        for k in ("btree", "hashmap"):
            e = next((e for e in events if e.get("k") == k), None)
            if e is not None and e["len"] != classes:
                bad.append((f"{k}-keys!=eq-classes", (e["len"], classes)))
    return bad


def run(rep, tier, rng):
    combos = M.all_combos()
    subsets = M.closed_subsets()
    points = []
    reqs = []
    for ci, combo in enumerate(combos):
        for si, sub in enumerate(subsets):
            # helper attributes of traits that are not derived are foreign attributes: outside this property
            if any(o != "-" and not any(t in sub for t in M.OWNS[a]) for a, o in zip(M.ATTRS, combo)):
                continue
            for placement in ("struct", "enum", "enumd", "enumm"):
                first = (ci + si) % 2 == 0
                entry = "attr" if (ci // 2 + si) % 2 == 0 else "derive"
                item, tl = item_text(combo, sub, placement, first, entry)
                if entry == "attr":
                    reqs.append({"id": len(reqs), "entry": "attr", "attr": tl, "item": item})
                else:
                    reqs.append({"id": len(reqs), "entry": "derive", "attr": "", "item": f"#[derive_ex({tl})] {item}"})
                points.append((combo, sub, placement, first, entry))
    obs = C.expand(reqs)
    accepted = []
    for o, pt in zip(obs, points):
        rep.count("acceptance_points")
        errs = [it for it in o.get("items", []) if it["kind"] == "compile_error"] if o.get("status") == "ok" else [1]
        if errs:
            rep.count("refused_by_macro")
        else:
            accepted.append(pt)
    rep.count("accepted_by_macro", len(accepted))
    rep.evaluations += len(points)
    # which accepted points are compiled and run
    is_core = lambda pt: sum(o != "-" for o in pt[0]) <= 1 and pt[2] == "struct"
    core = [pt for pt in accepted if is_core(pt)]
    rest = [pt for pt in accepted if not is_core(pt)]
    if NSAMPLE[tier] is None:
        chosen = core + rest
    else:
        chosen = core + rng.sample(rest, min(NSAMPLE[tier], len(rest)))
    cases = [C.Case(f"c{i}", code_for(*pt), {"pt": pt}) for i, pt in enumerate(chosen)]
    _, notes = C.run_cases(cases, "c02", header=HEADER, batch_size=100)
    for n in notes:
        rep.inconcl(n)
    sigs = {}
    for c in cases:
        combo, sub, placement, first, entry = c.meta["pt"]
        if c.status == "inconclusive":
            continue
        if c.status == "compile_fail":
            # The program is nothing but the type (V fields, library key / by functions) and observation code that compiles
            # for every accepted point on the unchanged tree: a point the expander accepts but rustc refuses has no
            # impls to be coherent - reported (C20 judges the same thing on its own programs).
            rep.count("accepted_but_rustc_refuses")
            d = next((d for d in c.diags if d["level"] == "error"), {"code": None, "message": "?"})
            sigs.setdefault(f"C02|accepted-point-does-not-compile|{d['code']}|{(d['message'] or '')[:40]}", []).append(
                (c, f"accepted by the expander, refused by rustc ({d['code']}: {(d['message'] or '')[:120]})"))
            continue
        rep.count("types_run")
        if any(e.get("k") == "panic" for e in c.events):
            sigs.setdefault("C02|panic", []).append((c, "panic"))
            continue
        bad = check_laws(c.events, sub)
        n = 19 if placement == "enum" else 18
        rep.evaluations += n * n
        if any(o != "-" for o in combo):
            rep.nontrivial.add((combo, tuple(sub)))
        for law, w in bad:
            desc = ",".join(f"{a}={o}" for a, o in zip(M.ATTRS, combo) if o != "-")
            sigs.setdefault(f"C02|{law}|{desc}|derived={'+'.join(sub)}", []).append((c, f"{law} broken at {w}"))
    for sig, lst in list(sigs.items())[:40]:
        c, what = lst[0]
        again = C.compile_single(c.code, header=HEADER)
        if (again.status == "compile_fail" and "does-not-compile" in sig) or \
                (again.status == "ok" and (check_laws(again.events, c.meta["pt"][1]) or any(e.get("k") == "panic" for e in again.events))):
            rep.violation(sig, f"{what}: {c.code.splitlines()[0]} {c.code.splitlines()[1][:200]} [{len(lst)} cases]",
                          {"pt": [list(c.meta["pt"][0]), c.meta["pt"][1], c.meta["pt"][2], c.meta["pt"][3], c.meta["pt"][4]], "code": c.code})
        else:
            rep.inconcl(f"finding did not reproduce in isolation: {sig}")
    for c in cases[:2] + cases[-1:]:
        rep.sample({"source": c.code[:500], "status": c.status})
    # ---- several attributed fields at once: every layout of {plain, ignore, reverse, key, key+reverse} over three fields
    import itertools
    lcases = []
    FULL = ["Ord", "PartialOrd", "Eq", "PartialEq", "Hash"]
    for k, layout in enumerate(itertools.product(LAYOUT_OPTS, repeat=3)):
        if all(o == LAYOUT_OPTS[0] for o in layout):
            continue
        sub = FULL if k % 3 else FULL[:4]
        kind = "struct" if k % 2 else "enum"
        lcases.append(C.Case(f"l{k}", layout_code(layout, sub, kind, "attr" if k % 4 < 2 else "derive"), {"layout": layout, "sub": sub, "kind": kind}))
    _, lnotes = C.run_cases(lcases, "c02l", header=HEADER, batch_size=40)
    for nmsg in lnotes:
        rep.inconcl(nmsg)
    for c in lcases:
        if c.status == "inconclusive":
            continue
        lay = ",".join(o[0] for o in c.meta["layout"])
        if c.status == "compile_fail":
            d = next(x for x in c.diags if x["level"] == "error")
            rep.violation(f"C02|layout-does-not-compile|{lay}", f"three attributed fields [{lay}]: {(d['message'] or '')[:160]}\n{c.code[:400]}", {"code": c.code, "subset": c.meta["sub"]})
            continue
        rep.count("multi_field_layouts_run")
        bad = check_laws(c.events, c.meta["sub"])
        nobs = sum(len(e["m"]) for e in c.events if e.get("k") == "mat")
        rep.evaluations += nobs
        for law, w in bad[:1]:
            rep.violation(f"C02|layout|{law}|{lay}|{c.meta['kind']}", f"three attributed fields [{lay}] ({c.meta['kind']}, derived {'+'.join(c.meta['sub'])}): law `{law}` fails at {w}\n{c.code[:400]}",
                          {"code": c.code, "subset": c.meta["sub"]})
    # canary: the law checker must flag a log in which `==` and `cmp` disagree
    good = next((c for c in cases if c.status == "ok" and "Ord" in c.meta["pt"][1]), None)
    if good:
        ev = json.loads(json.dumps(good.events))
        for e in ev:
            if e.get("k") == "mat" and e["op"] == "eq":
                e["m"] = e["m"][:1] + ("0" if e["m"][1] == "1" else "1") + e["m"][2:]
        rep.canary = bool(check_laws(ev, good.meta["pt"][1]))
    rep.rule = ("all 3136 per-field attribute combinations x 11 supertrait-closed subsets of the five traits x {struct field, "
                "enum-variant field}: acceptance read from the real expander for every point; accepted points are compiled with "
                "the real proc-macro and run (all single-attribute points plus a seeded sample in quick, all in thorough); "
                "laws checked on all pairs/triples of 18-19 values: eq<=>partial_cmp==Equal<=>cmp==Equal, partial_cmp==Some(cmp), "
                "eq=>same hash feed, eq equivalence, cmp antisymmetric/transitive/total, BTreeMap/HashMap key count == number "
                "of ==-classes; plus all 124 layouts of {plain, ignore, reverse, key, key+reverse} over three fields of one struct / variant. All key/by functions express the one key v/2. distinct_nontrivial = distinct (combination, "
                "subset) points run that carry at least one attribute.")
    rep.assumptions = ["types the macro accepts but rustc rejects are counted and left to C20"]


def replay(rep, path):
    j = json.load(open(path))["replay"]
    c = C.compile_single(j["code"], header=HEADER)
    if c.status == "compile_fail":
        print(f"VIOLATION property=C02 replay={path}\n  accepted by the expander, refused by rustc")
        return 1
    if "subset" in j:
        bad = c.status == "ok" and check_laws(c.events, j["subset"])
        print(f"VIOLATION property=C02 replay={path}" if bad else "replay: no violation")
        return 1 if bad else 0
    if c.status == "ok" and check_laws(c.events, j["pt"][1]):
        print(f"VIOLATION property=C02 replay={path}\n  {check_laws(c.events, j['pt'][1])}")
        return 1
    print("replay: no violation")
    return 0
