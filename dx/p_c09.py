"""C09 — operators derived from a user impl forward to it faithfully (E-run, traces)."""
import json

from . import common as C

FLOOR = {"quick": 3000, "thorough": 3000}
HEADER = "#![allow(warnings)]"
TERM = "::dxrt::Term"


def specs_all(tier):
    out = []
    k = 0
    shapes = ["plain", "generic", "generic_self_where", "generic_self_hrtb", "generic_self_hrtb_inline", "generic_self_nested", "output_self", "rhs_self",
              # operand types written `(&A)`, and handed in through `$t:ty` fragments of a macro_rules! macro
              "paren", "paren2", "frag",
              # a path through `Self` (an associated constant) in the where-clause
              "self_const"]
    for op in C.BINOPS:
        for shape in shapes:
            for lref in (False, True):
                for rref in (False, True):
                    for rhs_other in (False, True):
                        for req in (["Op"], ["OpAssign"], ["Op", "OpAssign"], ["OpAssign", "Op"]):
                            k += 1
                            out.append({"op": op, "base": "binary", "lref": lref, "rref": rref, "other": rhs_other, "req": req,
                                        "shape": shape, "omit_rhs": (not rhs_other and not lref and not rref and k % 2 == 0),
                                        # where the user wrote `type Output` inside the impl: before or after the method
                                        "out_last": k % 3 == 0})
            for rref in (False, True):
                for rhs_other in (False, True):
                    out.append({"op": op, "base": "assign", "lref": False, "rref": rref, "other": rhs_other, "req": ["Op"],
                                "shape": shape, "omit_rhs": False})
    return out


def render(s):
    op = s["op"]
    fn = C.OPFN[op]
    sym = C.OPSYM[op]
    generic = s["shape"] not in ("plain", "rhs_self", "paren", "paren2", "frag", "self_const")
    g = "<T>" if generic else ""
    if s["shape"] == "generic_self_hrtb_inline":
        # an inline bound that is already higher-ranked and mentions `Self`
        g = "<T: for<'b> ::dxrt::TagP<'b, Self>>"
    A = "A<T>" if generic else "A"
    B = ("O<T>" if generic else "O") if s["other"] else A
    fty = "T" if generic else TERM
    Ai = f"A<{TERM}>" if generic else "A"
    Bi = (f"O<{TERM}>" if generic else "O") if s["other"] else Ai
    wh = ""
    if generic:
        wh = f"where T: ::core::clone::Clone + ::dxrt::Tm"
        if s["shape"] == "generic_self_where":
            wh += ", Self: ::core::marker::Sized"
        if s["shape"] == "generic_self_nested":
            # `Self` inside another type of a predicate
            wh += ", ::core::option::Option<Self>: ::core::marker::Sized, (Self, T): ::dxrt::TagL<'static>"
        if s["shape"] == "generic_self_hrtb":
            # a predicate on `Self` that is already higher-ranked
            wh += ", for<'b> Self: ::dxrt::TagL<'b>"
    gdef = "<T>" if generic else ""
    defs = [f"#[derive(Clone)] pub struct A{gdef}(pub {fty});"]
    if s["shape"] in ("paren", "paren2", "frag") and (s["op"] in C.BINOPS[::2]):
        # `Self` in the where-clause of these spellings: as the bounded type, inside a bound that has a binder of its own,
        # and inside the bound of a predicate that has a binder of its own
        wh = "where Self: ::core::marker::Sized, u8: for<'x> ::dxrt::TagP<'x, Self>, for<'y> &'y u8: ::dxrt::TagP<'y, Self>, for<'z> Self: ::dxrt::TagL<'z>"
    if s["shape"] == "self_const":
        defs.append("impl A { pub const N: usize = 2; }")
        if not s["lref"]:
            wh = "where [u8; Self::N]: ::core::marker::Sized, [(); Self::N + 1]: ::core::marker::Copy"
    if s["other"]:
        defs.append(f"#[derive(Clone)] pub struct O{gdef}(pub {fty});")
    getl = "::dxrt::Tm::s(&self.0)" if generic else "self.0.0.clone()"
    getr = "::dxrt::Tm::s(&uo.0)" if generic else "uo.0.0.clone()"
    mkt = (lambda e: f"<T as ::dxrt::Tm>::mk({e})") if generic else (lambda e: f"{TERM}({e})")
    lhs_ty = f"&{A}" if s["lref"] else A
    rhs_ty = f"&{B}" if s["rref"] else B
    if s["shape"] == "paren":
        lhs_ty, rhs_ty = f"({lhs_ty})", f"({rhs_ty})"
    if s["shape"] == "paren2":
        lhs_ty, rhs_ty = f"(({lhs_ty}))", f"(({rhs_ty}))"
    frag_call = None
    if s["shape"] == "frag":
        frag_call = f"mk!({lhs_ty}, {rhs_ty});"
        lhs_ty, rhs_ty = "$this", "$rhs"
    reqs = ", ".join(op + ("Assign" if r == "OpAssign" else "") for r in s["req"])
    # `Self` spelled in the user's impl where the shape asks for it
    out_ty = "Self" if (s["shape"] == "output_self" and not s["lref"]) else A
    QF = '"({} ' + sym + ' {})"'
    QFA = '"({} ' + sym + '= {})"'
    bin_val = mkt("format!(" + QF + ", l, r)")
    asg_val = mkt("format!(" + QFA + ", l, r)")
    log = '::dxrt::trace(format!("user {} {}", l, r));'
    if s["base"] == "binary":
        targ = "" if s["omit_rhs"] else f"<{rhs_ty}>"
        ptype = rhs_ty
        if s["shape"] == "rhs_self" and not s["other"] and s["lref"] == s["rref"]:
            # the right operand's type spelled `Self` (also when Self is `&A`)
            targ, ptype = "<Self>", "Self"
        items = [f"    type Output = {out_ty};",
                 f"    fn {fn}(self, uo: {ptype}) -> {A} {{ let l = {getl}; let r = {getr}; {log} A({bin_val}) }}"]
        if s.get("out_last"):
            items.reverse()
        impl = (f"#[::derive_ex::derive_ex({reqs})]\n"
                f"impl{g} ::core::ops::{op}{targ} for {lhs_ty} {wh} {{\n" + "\n".join(items) + "\n}")
    else:
        impl = (f"#[::derive_ex::derive_ex({reqs})]\n"
                f"impl{g} ::core::ops::{op}Assign<{rhs_ty}> for {A} {wh} {{\n"
                f"    fn {fn}_assign(&mut self, uo: {rhs_ty}) {{ let l = {getl}; let r = {getr}; {log} self.0 = {asg_val}; }}\n}}")
    if frag_call:
        impl = "macro_rules! mk { ($this:ty, $rhs:ty) => {\n" + impl + "\n} }\n" + frag_call
    mk_a = f"A({TERM}::new(\"a\"))"
    mk_b = (f"O({TERM}::new(\"b\"))" if s["other"] else f"A({TERM}::new(\"b\"))")
    def sh(x):
        return f"::dxrt::Tm::s(&{x}.0)"
    EMPTY = '""'
    body = []
    for form, le, re in forms_to_observe(s):
        db = sh("b") if re.startswith("&") else EMPTY
        if form in ("vv", "vr", "rv", "rr"):
            da = sh("a") if le.startswith("&") else EMPTY
            body.append(f'{{ let a: {Ai} = {mk_a}; let b: {Bi} = {mk_b}; let _ = ::dxrt::take_trace(); let r: {Ai} = {le} {sym} {re}; let t = ::dxrt::take_trace(); '
                        f'::dxrt::ev!("obs", "form" => "{form}", "res" => {sh("r")}, "trace" => t, "da" => {da}, "db" => {db}); }}')
        else:
            body.append(f'{{ let mut a: {Ai} = {mk_a}; let b: {Bi} = {mk_b}; let _ = ::dxrt::take_trace(); a {sym}= {re}; let t = ::dxrt::take_trace(); '
                        f'::dxrt::ev!("obs", "form" => "{form}", "res" => {sh("a")}, "trace" => t, "da" => "", "db" => {db}); }}')
    return "\n".join(defs + [impl, "pub fn run() {"] + body + ["}"])


def control(s):
    """The user's impl alone, without derive_ex: must compile (generator control)."""
    code = render(s)
    lines = [l for l in code.splitlines() if not l.startswith("#[::derive_ex::derive_ex(")]
    i = lines.index("pub fn run() {")
    return "\n".join(lines[:i] + ["pub fn run() {}"])


def forms_to_observe(s):
    """(form id, lhs expr, rhs expr) for every impl that must exist after expansion (incl. the user's own)."""
    out = []
    if s["base"] == "binary":
        if "Op" in s["req"]:
            out += [("vv", "a", "b"), ("vr", "a", "&b"), ("rv", "&a", "b"), ("rr", "&a", "&b")]
        else:
            out.append((("r" if s["lref"] else "v") + ("r" if s["rref"] else "v"), "&a" if s["lref"] else "a", "&b" if s["rref"] else "b"))
        if "OpAssign" in s["req"]:
            if "Op" in s["req"]:
                out += [("=v", None, "b"), ("=r", None, "&b")]
            else:
                out.append(("=r" if s["rref"] else "=v", None, "&b" if s["rref"] else "b"))
    else:
        out.append(("=r" if s["rref"] else "=v", None, "&b" if s["rref"] else "b"))
        out.append(("v" + ("r" if s["rref"] else "v"), "a", "&b" if s["rref"] else "b"))
    return out


def expected(s, form):
    sym = C.OPSYM[s["op"]]
    if s["base"] == "assign":
        res = f"(a {sym}= b)"
        return res, ["user a b"]
    res = f"(a {sym} b)"
    if form.startswith("="):
        l_in_ref, r_in_ref = True, form[1] == "r"
    else:
        l_in_ref, r_in_ref = form[0] == "r", form[1] == "r"
    tr = []
    if l_in_ref and not s["lref"]:
        tr.append("tclone a")
    if r_in_ref and not s["rref"]:
        tr.append("tclone b")
    tr.append("user a b")
    return res, tr


def check_case(s, events):
    bad = []
    seen = set()
    for e in events:
        if e.get("k") != "obs":
            continue
        form = e["form"]
        seen.add(form)
        res, tr = expected(s, form)
        if e["res"] != res:
            bad.append((f"result:{form}", res, e["res"]))
        t = [x for x in e["trace"] if not x.startswith("drop")]
        if sorted(t) != sorted(tr):
            kind = "user-call-count" if t.count("user a b") != 1 and any(x.startswith("user") for x in t + tr) else "clone-multiset"
            if [x for x in t if x.startswith("user")] != ["user a b"]:
                kind = "user-call"
            bad.append((f"{kind}:{form}", tr, t))
        elif t and t[-1] != "user a b":
            bad.append((f"clone-after-user-call:{form}", tr, t))
        if e["da"] not in ("", "a"):
            bad.append((f"borrowed-lhs-changed:{form}", "a", e["da"]))
        if e["db"] not in ("", "b"):
            bad.append((f"borrowed-rhs-changed:{form}", "b", e["db"]))
    for f, _, _ in forms_to_observe(s):
        if f not in seen:
            bad.append((f"missing-observation:{f}", "", ""))
    return bad


def desc(s):
    return (f"{s['op']} base={'&' if s['lref'] else ''}A {s['base']} {'&' if s['rref'] else ''}{'O' if s['other'] else 'A'} "
            f"req={'+'.join(s['req'])} {s['shape']}{' rhs-omitted' if s['omit_rhs'] else ''}")


def run(rep, tier, rng):
    specs = specs_all(tier)
    cases = []
    for i, s in enumerate(specs):
        cases.append(C.Case(f"c{i}", render(s), {"spec": s}))
        cases.append(C.Case(f"k{i}", control(s), {}))
    _, notes = C.run_cases(cases, "c09", header=HEADER, batch_size=80)
    for n in notes:
        rep.inconcl(n)
    by = {c.name: c for c in cases}
    sigs = {}
    for i, s in enumerate(specs):
        c, k = by[f"c{i}"], by[f"k{i}"]
        if "inconclusive" in (c.status, k.status):
            continue
        if k.status != "ok":
            rep.inconcl(f"generator control does not compile: {desc(s)}: {[d['message'] for d in k.diags][:2]}")
            continue
        if c.status == "compile_fail":
            # the control (same user-written pieces without derive_ex) compiled, so the failure is the macro's
            d0 = next((d for d in c.diags if d["level"] == "error" and d["in_derive_ex"]), None) or \
                next((d for d in c.diags if d["level"] == "error"), {"code": None, "message": "?"})
            msg, code = d0["message"] or "", str(d0["code"])
            sigs.setdefault(f"C09|compile_fail|{code}|{msg[:50]}|{s['shape']}|self={'&A' if s['lref'] else 'A'}", []).append((c, f"does not compile ({msg[:200]}): {desc(s)}"))
            continue
        rep.count("impl_items_run")
        bad = check_case(s, c.events)
        nobs = sum(1 for e in c.events if e.get("k") == "obs")
        rep.evaluations += nobs
        rep.count("forms_observed", nobs)
        for e in c.events:
            if e.get("k") == "obs":
                rep.nontrivial.add((s["op"], s["base"], s["lref"], s["rref"], s["other"], tuple(s["req"]), e["form"], s["shape"]))
        for b in bad:
            sigs.setdefault(f"C09|{b[0]}|base={'r' if s['lref'] else 'v'}{'r' if s['rref'] else 'v'}|{s['base']}|req={'+'.join(s['req'])}", []).append(
                (c, f"{b[0]}: expected {b[1]} observed {b[2]}: {desc(s)}"))
    for sig, lst in list(sigs.items())[:30]:
        c, what = lst[0]
        again = C.compile_single(c.code, header=HEADER)
        if (again.status == "compile_fail" and "compile_fail" in sig) or (again.status == "ok" and check_case(c.meta["spec"], again.events)):
            rep.violation(sig, f"{what} [{len(lst)} cases]", {"spec": c.meta["spec"], "code": c.code})
        else:
            rep.inconcl(f"did not reproduce in isolation: {sig}")
    # ---- the user's generics carry over unchanged: the derived forms apply to every instantiation the base impl applies to ----
    acases = []
    OPS = "::core::ops::"
    defs = ("pub struct NC;\npub struct A<T>(pub u8, pub ::core::marker::PhantomData<T>);\n"
            "impl<T> ::core::clone::Clone for A<T> { fn clone(&self) -> Self { A(self.0, ::core::marker::PhantomData) } }\n")
    for k, op in enumerate(("Sub", "Shl", "BitXor")):
        fn = C.OPFN[op]
        bases = {
            "vv": (f"impl<T> {OPS}{op}<A<T>> for A<T> {{ type Output = A<T>; fn {fn}(self, uo: A<T>) -> A<T> {{ A(self.0 ^ uo.0, ::core::marker::PhantomData) }} }}", f"{op}, {op}Assign"),
            "rr": (f"impl<T> {OPS}{op}<&A<T>> for &A<T> {{ type Output = A<T>; fn {fn}(self, uo: &A<T>) -> A<T> {{ A(self.0 ^ uo.0, ::core::marker::PhantomData) }} }}", f"{op}, {op}Assign"),
            "=r": (f"impl<T> {OPS}{op}Assign<&A<T>> for A<T> {{ fn {fn}_assign(&mut self, uo: &A<T>) {{ self.0 ^= uo.0; }} }}", f"{op}"),
        }
        for bname, (impl, req) in bases.items():
            if bname == "=r":
                probes = [("A<NC>", f"{op}<&'static A<NC>>")]
            else:
                probes = [("A<NC>", f"{op}<A<NC>>"), ("A<NC>", f"{op}<&'static A<NC>>"), ("&'static A<NC>", f"{op}<A<NC>>"), ("&'static A<NC>", f"{op}<&'static A<NC>>"),
                          ("A<NC>", f"{op}Assign<A<NC>>"), ("A<NC>", f"{op}Assign<&'static A<NC>>")]
            body = " ".join(f"s.push(::dxrt::bool_c(::dxrt::probe_impl!({l}: {OPS}{r})));" for l, r in probes)
            code = (defs + f"#[::derive_ex::derive_ex({req})]\n{impl}\npub fn run() {{ let mut s = ::std::string::String::new(); {body} "
                    f'::dxrt::ev!("appl", "b" => s); }}')
            acases.append(C.Case(f"a{len(acases)}", code, {"what": f"{op} base {bname}", "n": len(probes)}))
    _, anotes = C.run_cases(acases, "c09a", header=HEADER, batch_size=9)
    for n in anotes:
        rep.inconcl(n)
    for c in acases:
        if c.status == "inconclusive":
            continue
        rep.evaluations += 1
        rep.count("applicability_programs")
        if c.status == "compile_fail":
            who, d = C.blame(c)
            if who == "harness":
                rep.inconcl(f"applicability program does not compile outside derive_ex's output: {str(d['message'])[:120]}")
            else:
                rep.violation(f"C09|applicability|compile_fail|{c.meta['what']}", f"{c.meta['what']}: {d['code']}: {(d['message'] or '')[:150]}", {"spec": None, "code": c.code})
            continue
        ev = next((e for e in c.events if e.get("k") == "appl"), None)
        if ev is None or len(ev["b"]) != c.meta["n"]:
            rep.inconcl("no applicability bits in " + c.name)
        elif "0" in ev["b"]:
            rep.violation(f"C09|applicability|derived-form-missing-for-non-Clone-parameter|{c.meta['what']}",
                          f"{c.meta['what']}: the base impl has no bound on T and `A<T>: Clone` for every T, but a derived form does not apply to A<NC> (bits {ev['b']})",
                          {"spec": None, "code": c.code})
    for c in (cases[0], cases[10], cases[-2]):
        rep.sample({"source": c.code[:700], "events": [e for e in c.events if e.get("k") == "obs"][:2]})
    # canary: an expectation that forgets the clone of a by-reference operand must be flagged
    ok = next(c for c in cases if c.name.startswith("c") and c.status == "ok" and c.meta["spec"]["base"] == "binary"
              and not c.meta["spec"]["lref"] and "Op" in c.meta["spec"]["req"])
    ev = json.loads(json.dumps(ok.events))
    for e in ev:
        if e.get("k") == "obs" and e["form"] == "rv":
            e["trace"] = [x for x in e["trace"] if not x.startswith("tclone")]
    rep.canary = any(b[0].startswith("clone") for b in check_case(ok.meta["spec"], ev))
    rep.exhaustive = True
    rep.rule = ("complete over 10 operators x 4 base forms (T/&T x Rhs/&Rhs) x Rhs in {Self, other type} x requested sets {Op}, "
                "{OpAssign}, {Op,OpAssign} (listed in both orders), plus base `impl OpAssign<Rhs|&Rhs>` with {Op}; plain and generic impls (where-clauses, "
                "`Self` in where-clause / Output; Rhs defaulted); user bodies build non-commutative terms and log calls, operand "
                "clones are logged by the operand types. Every generated owned/reference/assign form is applied and its result, "
                "user-call count, clone multiset/order and borrowed operands compared with the expectation. evaluations = forms "
                "observed.")


def replay(rep, path):
    j = json.load(open(path))["replay"]
    c = C.compile_single(j["code"], header=HEADER)
    if j.get("spec") is None:
        bad = c.status == "compile_fail" or any(e.get("k") == "appl" and "0" in e["b"] for e in c.events)
        print(f"VIOLATION property=C09 replay={path}" if bad else "replay: no violation")
        return 1 if bad else 0
    if c.status == "compile_fail" or (c.status == "ok" and check_case(j["spec"], c.events)):
        print(f"VIOLATION property=C09 replay={path}")
        return 1
    print("replay: no violation")
    return 0
