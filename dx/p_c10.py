"""C10 — Debug prints like the std derive minus ignored fields; transparent delegates (E-run, twin)."""
import json
import re

from . import common as C

FLOOR = {"quick": 15000, "thorough": 100000}
NRANDOM = {"quick": 800, "thorough": 6000}
HEADER = "#![allow(warnings)]"
SPECS = ["{:?}", "{:#?}", "{:10?}", "{:<12?}", "{:*^14?}", "{:+?}", "{:.1?}", "{:x?}", "{:#X?}", "{:08.2?}", "{:#10?}", "{:>+9.3?}"]

# field type -> (type text, value exprs)
FT = {
    "u8": ("u8", ["0u8", "200u8"]),
    "i32": ("i32", ["-17i32", "42i32"]),
    "f64": ("f64", ["1.5f64", "-0.25f64"]),
    "str": ("&'static str", ["\"a b\"", "\"\""]),
    "opt": ("::core::option::Option<u8>", ["::core::option::Option::None", "::core::option::Option::Some(3u8)"]),
    "vec": ("::std::vec::Vec<i32>", ["vec![]", "vec![1i32, -2]"]),
    "tup": ("(u8, char)", ["(1u8, 'x')", "(9u8, '\\n')"]),
    "unit": ("()", ["()"]),
    "inner": ("Inner", ["Inner { a: 1, b: 2.5 }", "Inner { a: 255, b: -1.0 }"]),
    "sh": ("::dxrt::Sh", ["::dxrt::Sh(1)", "::dxrt::Sh(40)"]),    # inherent fn fmt() that prints something else
    "T": ("T", ["7u8", "8u8"]),
    "optT": ("::core::option::Option<T>", ["::core::option::Option::Some(1u8)", "::core::option::Option::None"]),
}


R_NAMES = ["r", "rate", "r#ref", "right", "r#type", "r_", "rr", "r0", "rx9", "radius", "row", "r#loop", "reg"]


# hostile scopes: blanket traits whose by-value methods are named like the builder methods of core::fmt (a by-value trait
# method wins over an inherent `&mut self` method in method-call syntax); the std twin lives in the same scope
HOSTILE = {
    "t": "pub trait HostT: Sized { fn field<A>(self, _a: A) -> Self { self } }\nimpl<X> HostT for X {}",
    "s": "pub trait HostS: Sized { fn field<A, B>(self, _a: A, _b: B) -> Self { self } }\nimpl<X> HostS for X {}",
    "f": "pub trait HostF: Sized { fn finish(self) -> ::core::fmt::Result { Err(::core::fmt::Error) } fn finish_non_exhaustive(self) -> ::core::fmt::Result { Err(::core::fmt::Error) } }\nimpl<X> HostF for X {}",
    "d": "pub trait HostD: Sized { fn debug_struct(self, _n: &str) -> u8 { 0 } fn debug_tuple(self, _n: &str) -> u8 { 0 } fn fmt(self, _f: &mut ::core::fmt::Formatter) -> ::core::fmt::Result { Ok(()) } }\nimpl<X> HostD for X {}",
}


def fname(spec, i):
    """Field names: f0, f1, .. or - spec["names"] == "r" - names beginning with `r` (some of them raw identifiers)."""
    return R_NAMES[i % len(R_NAMES)] if spec.get("names") == "r" else f"f{i}"


RV_NAMES = ["r#type", "r#loop", "Ready", "r#Box", "r#fn"]


def vname(spec, i):
    """Variant names: V0, V1, .. or - spec["vnames"] == "r" - raw identifiers (keywords as names) next to plain ones."""
    return RV_NAMES[i % len(RV_NAMES)] if spec.get("vnames") == "r" else f"V{i}"


def gen_spec(rng, kind=None):
    kind = kind or rng.choice(["struct", "struct", "enum"])
    generic = rng.random() < 0.25
    pool = [k for k in FT if (generic or k not in ("T", "optT"))]
    nv = 1 if kind == "struct" else rng.randint(1, 4)
    variants = []
    for vi in range(nv):
        style = rng.choice(["named", "tuple", "unit"])
        nf = 0 if style == "unit" else rng.randint(0, 4)
        fs = [{"ft": rng.choice(pool), "ignore": False, "transparent": False, "bound": None} for _ in range(nf)]
        mode = rng.random()
        if fs and mode < 0.45:
            for f in fs:
                f["ignore"] = rng.random() < 0.5
        elif fs and mode < 0.7:
            t = rng.randrange(len(fs))
            fs[t]["transparent"] = True
            for i, f in enumerate(fs):
                if i != t and rng.random() < 0.3:
                    f["ignore"] = True
        variants.append({"style": style, "fields": fs})
    generic = any(f["ft"] in ("T", "optT") for v in variants for f in v["fields"])
    # `bound(..)` (which changes nothing) written in the same attribute as the flag, before or after it, or alone
    for v in variants:
        for f in v["fields"]:
            if rng.random() < 0.2:
                f["bound"] = rng.choice(["pre", "post"])
    # PartialEq co-derived with #[eq(ignore)] / #[partial_eq(ignore)] on fields that Debug prints
    co = rng.choice([None, None, None, "first", "last", "split"])
    if co:
        for v in variants:
            for f in v["fields"]:
                f["eq_ignore"] = rng.choice([None, "eq", "partial_eq"])
    return {"kind": kind, "variants": variants, "generic": generic, "entry": rng.choice(["attr", "derive"]),
            "names": "r" if rng.random() < 0.25 else None, "co": co, "doc": rng.random() < 0.3,
            "scope": rng.choice(["t", "s", "f", "d", "tf", "sfd"]) if rng.random() < 0.15 else None}


def type_text(spec, twin):
    g = "<T>" if spec["generic"] else ""
    if twin:
        head = "#[derive(Debug)]\n"
        # a type parameter that is no longer used after deleting fields needs PhantomData-free handling: keep T via where-clause
    else:
        lists = {None: ["Debug"], "first": ["PartialEq, Debug"], "last": ["Debug, PartialEq"], "split": ["Debug", "PartialEq"]}[spec.get("co")]
        if spec["entry"] == "attr":
            head = f"#[::derive_ex::derive_ex({lists[0]})]\n" + "".join(f"#[derive_ex({x})]\n" for x in lists[1:])
        else:
            head = "#[derive(::derive_ex::Ex)]\n" + "".join(f"#[derive_ex({x})]\n" for x in lists)
    bodies = []
    uses_t = False
    for v in spec["variants"]:
        fs = []
        for i, f in enumerate(v["fields"]):
            if twin and f["ignore"]:
                continue
            a = ""
            if not twin:
                flag = "ignore" if f["ignore"] else ("transparent" if f["transparent"] else None)
                args = [flag] if flag else []
                if f.get("bound"):
                    args = ["bound(..)"] + args if f["bound"] == "pre" else args + ["bound(..)"]
                if args:
                    a = f"#[debug({', '.join(args)})] "
                if a and spec.get("doc"):
                    # a foreign `name = value` attribute (what a doc comment is) in front of the helper attribute
                    a = '#[doc = "d"] ' + a
                if spec.get("co") and f.get("eq_ignore"):
                    a = a + f"#[{f['eq_ignore']}(ignore)] " if i % 2 else f"#[{f['eq_ignore']}(ignore)] " + a
            if f["ft"] in ("T", "optT"):
                uses_t = True
            pk = "pub " if spec["kind"] == "struct" else ""
            fs.append((f"{a}{pk}{fname(spec, i)}: {FT[f['ft']][0]}") if v["style"] == "named" else f"{a}{pk}{FT[f['ft']][0]}")
        if v["style"] == "named":
            bodies.append("{ " + ", ".join(fs) + " }")
        elif v["style"] == "tuple":
            bodies.append("(" + ", ".join(fs) + ")")
        else:
            bodies.append("")
    if twin and spec["generic"] and not uses_t:
        g = ""
    if spec["kind"] == "struct":
        b = bodies[0]
        t = head + (f"pub struct Ty{g} {b}" if spec["variants"][0]["style"] == "named" else f"pub struct Ty{g}{b};")
    else:
        t = head + f"pub enum Ty{g} {{ " + ", ".join(f"{vname(spec, i)}{b}" for i, b in enumerate(bodies)) + " }"
    return t, (g != "")


def ctor(spec, vi, which, twin, prefix=""):
    v = spec["variants"][vi]
    head = f"{prefix}Ty" if spec["kind"] == "struct" else f"{prefix}Ty::{vname(spec, vi)}"
    vals = []
    for i, f in enumerate(v["fields"]):
        if twin and f["ignore"]:
            continue
        dom = FT[f["ft"]][1]
        x = dom[(which + i) % len(dom)]
        if f["ft"] == "inner":
            x = prefix + x
        vals.append((i, x))
    if v["style"] == "named":
        return head + " { " + ", ".join(f"{fname(spec, i)}: {x}" for i, x in vals) + " }"
    if v["style"] == "tuple":
        return head + "(" + ", ".join(x for _, x in vals) + ")"
    return head


def render(spec, control=False):
    dx, _ = type_text(spec, False)
    if control:
        dx = re.sub(r"#\[(debug|eq|partial_eq)\([^\]]*\)\] ", "", dx).replace('#[doc = "d"] ', "")
        dx = re.sub(r"#\[::derive_ex::derive_ex\([^\]]*\)\]\n(#\[derive_ex\([^\]]*\)\]\n)*", "#[derive(Debug)]\n", dx)
        dx = re.sub(r"#\[derive\(::derive_ex::Ex\)\]\n(#\[derive_ex\([^\]]*\)\]\n)*", "#[derive(Debug)]\n", dx)
    tw, tw_generic = type_text(spec, True)
    inner_dx = ("#[derive(Debug, PartialEq)]" if control else "#[derive(PartialEq)] #[::derive_ex::derive_ex(Debug)]") + "\npub struct Inner { pub a: u8, pub b: f64 }"
    inner_tw = "#[derive(Debug)]\npub struct Inner { pub a: u8, pub b: f64 }"
    host = [HOSTILE[k] for k in (spec.get("scope") or "")]
    host_tw = ["#[allow(unused_imports)] use super::{" + ", ".join(f"Host{k.upper()} as _" for k in spec["scope"]) + "};"] if host else []
    out = host + [inner_dx, dx, "pub mod tw {"] + host_tw + [inner_tw, tw, "}", "pub fn run() {"]
    for vi, v in enumerate(spec["variants"]):
        for which in range(2):
            x = ctor(spec, vi, which, False)
            tfield = next((i for i, f in enumerate(v["fields"]) if f["transparent"]), None)
            if tfield is not None:
                dom = FT[v["fields"][tfield]["ft"]][1]
                t = dom[(which + tfield) % len(dom)]
                if v["fields"][tfield]["ft"] == "inner":
                    t = "tw::" + t
                tty = FT[v["fields"][tfield]["ft"]][0].replace("<T>", "<u8>")
                tty = {"T": "u8", "Inner": "tw::Inner"}.get(tty, tty)
                tdecl = f"let t: {tty} = {t};"
            else:
                tdecl = f"let t{': tw::Ty<u8>' if tw_generic else ''} = {ctor(spec, vi, which, True, 'tw::')};"
            xdecl = f"let x{': Ty<u8>' if spec['generic'] else ''} = {x};"
            out.append("{ " + xdecl + " " + tdecl)
            for si, sp in enumerate(SPECS):
                out.append(f'  ::dxrt::ev!("fmt", "v" => {vi}, "w" => {which}, "s" => {si}, "dx" => format!("{sp}", x), "tw" => format!("{sp}", t));')
            out.append("}")
    out.append("}")
    return "\n".join(out)


def check_case(spec, events):
    bad = []
    n = 0
    for e in events:
        if e.get("k") == "fmt":
            n += 1
            if e["dx"] != e["tw"]:
                v = spec["variants"][e["v"]]
                kind = "transparent" if any(f["transparent"] for f in v["fields"]) else ("ignore" if any(f["ignore"] for f in v["fields"]) else "plain")
                bad.append((f"{kind}:{v['style']}:{SPECS[e['s']]}", e["tw"], e["dx"]))
    want = sum(2 for _ in spec["variants"]) * len(SPECS)
    if n != want:
        bad.append(("missing-observations", want, n))
    return bad


def core():
    specs = []

    def fld(ft, ignore=False, transparent=False):
        return {"ft": ft, "ignore": ignore, "transparent": transparent, "bound": None}
    k = 0
    for style in ("named", "tuple"):
        for n in range(0, 4):
            # every subset of ignored fields
            for mask in range(1 << n):
                k += 1
                fs = [fld(["u8", "str", "f64", "vec"][i], ignore=bool(mask >> i & 1)) for i in range(n)]
                specs.append({"kind": "struct", "variants": [{"style": style, "fields": fs}], "generic": False,
                              "entry": "attr" if k % 2 else "derive"})
            for t in range(n):
                k += 1
                fs = [fld(["inner", "opt", "tup", "i32"][i], transparent=(i == t)) for i in range(n)]
                specs.append({"kind": "struct", "variants": [{"style": style, "fields": fs}], "generic": False,
                              "entry": "attr" if k % 2 else "derive"})
    specs.append({"kind": "struct", "variants": [{"style": "unit", "fields": []}], "generic": False, "entry": "attr"})
    # field names beginning with `r` (plain and raw); flags sharing an attribute with bound(..)
    for style in ("named", "tuple"):
        for bnd in (None, "pre", "post"):
            k += 1
            fs = [fld("u8"), fld("str", ignore=True), fld("i32"), fld("opt", ignore=True), fld("vec")]
            for f in fs:
                f["bound"] = bnd if f["ignore"] else None
            specs.append({"kind": "struct", "variants": [{"style": style, "fields": fs}], "generic": False, "entry": "attr" if k % 2 else "derive", "names": "r",
                          "doc": bnd is None})
            ft = [fld("u8", ignore=True), fld("inner", transparent=True), fld("i32", ignore=True)]
            ft[1]["bound"] = bnd
            specs.append({"kind": "enum", "variants": [{"style": "unit", "fields": []}, {"style": style, "fields": ft}], "generic": False,
                          "entry": "derive" if k % 2 else "attr", "names": "r"})
    # variants named with raw identifiers (the std derive prints them without `r#`), every variant style, with and without ignored fields
    for entry in ("attr", "derive"):
        for ign in (False, True):
            specs.append({"kind": "enum", "generic": False, "entry": entry, "vnames": "r", "names": "r", "variants": [
                {"style": "unit", "fields": []},
                {"style": "tuple", "fields": [fld("u8"), fld("str", ignore=ign)]},
                {"style": "unit", "fields": []},
                {"style": "named", "fields": [fld("i32", ignore=ign), fld("opt"), fld("u8")]},
                {"style": "tuple", "fields": [fld("inner", transparent=ign)]}]})
    # twelve fields (names / indices whose text order differs from the declaration order), some ignored
    cyc = ["u8", "i32", "str", "opt", "tup", "sh"]
    for style in ("named", "tuple"):
        fs = [fld(cyc[i % len(cyc)], ignore=(i in (3, 10))) for i in range(12)]
        specs.append({"kind": "struct", "variants": [{"style": style, "fields": fs}], "generic": False, "entry": "attr" if style == "named" else "derive"})
        specs.append({"kind": "enum", "variants": [{"style": "unit", "fields": []}, {"style": style, "fields": [dict(f) for f in fs]}], "generic": False,
                      "entry": "derive" if style == "named" else "attr"})
    # hostile scopes (blanket traits with methods named like the fmt builders), every struct / variant style
    for sc in ("t", "s", "f", "d", "tf", "sfd"):
        for style in ("named", "tuple", "unit"):
            k += 1
            fs = [] if style == "unit" else [fld("u8"), fld("str", ignore=True), fld("i32")]
            specs.append({"kind": "struct", "variants": [{"style": style, "fields": [dict(f) for f in fs]}], "generic": False, "entry": "attr" if k % 2 else "derive", "scope": sc})
            specs.append({"kind": "enum", "variants": [{"style": "unit", "fields": []}, {"style": style, "fields": [dict(f) for f in fs]},
                                                       {"style": "named", "fields": []}, {"style": "tuple", "fields": [fld("u8", ignore=True)]}],
                          "generic": False, "entry": "derive" if k % 2 else "attr", "scope": sc})
    specs.append({"kind": "enum", "generic": True, "entry": "derive", "variants": [
        {"style": "unit", "fields": []}, {"style": "named", "fields": []}, {"style": "tuple", "fields": []},
        {"style": "named", "fields": [fld("T"), fld("optT", ignore=True), fld("inner")]},
        {"style": "tuple", "fields": [fld("u8", ignore=True), fld("T", transparent=True)]}]})
    return specs


def run(rep, tier, rng):
    specs = core()
    rep.count("core_types", len(specs))
    n0 = len(specs)
    while len(specs) < n0 + NRANDOM[tier]:
        specs.append(gen_spec(rng))
    cases = [C.Case(f"c{i}", render(s), {"spec": s}) for i, s in enumerate(specs)]
    ctls = [C.Case(f"k{i}", render(s, control=True), {}) for i, s in enumerate(specs)]
    _, notes = C.run_cases(cases + ctls, "c10", header=HEADER, batch_size=40)
    ctl_ok = {c.name[1:]: c.status == "ok" for c in ctls}
    rep.count("controls_compiled", sum(ctl_ok.values()))
    rep.count("controls_rejected", sum(1 for v in ctl_ok.values() if not v))
    for n in notes:
        rep.inconcl(n)
    sigs = {}
    for c in cases:
        s = c.meta["spec"]
        if c.status == "inconclusive":
            continue
        if c.status == "compile_fail":
            who, d = C.blame(c)
            if who == "harness" and not ctl_ok.get(c.name[1:]):
                rep.inconcl(f"generated program does not compile and neither does its std-derive control: {d['message'][:150]}")
                rep.count("harness_compile_errors")
                continue
            sigs.setdefault(f"C10|compile_fail|{d['code']}|{(d['message'] or '')[:50]}", []).append((c, f"does not compile: {(d['message'] or '')[:200]}"))
            continue
        if any(e.get("k") == "panic" for e in c.events):
            sigs.setdefault("C10|panic", []).append((c, "panic while formatting"))
            continue
        rep.count("types_run")
        bad = check_case(s, c.events)
        n = sum(1 for e in c.events if e.get("k") == "fmt")
        rep.evaluations += n
        rep.count("format_calls_compared", n)
        for v in s["variants"]:
            rep.nontrivial.add((s["kind"], v["style"], tuple((f["ft"], f["ignore"], f["transparent"]) for f in v["fields"])))
        for b in bad:
            sigs.setdefault(f"C10|{b[0]}", []).append((c, f"{b[0]}: std twin prints {b[1]!r}, derive_ex prints {b[2]!r}"))
    for sig, lst in list(sigs.items())[:25]:
        c, what = lst[0]
        again = C.compile_single(c.code, header=HEADER)
        if (again.status == "compile_fail" and "compile_fail" in sig) or (again.status == "ok" and (check_case(c.meta["spec"], again.events) or any(e.get("k") == "panic" for e in again.events))):
            rep.violation(sig, f"{what}\n{chr(10).join(c.code.splitlines()[2:5])[:400]} [{len(lst)} cases]", {"spec": c.meta["spec"], "code": c.code})
        else:
            rep.inconcl(f"did not reproduce in isolation: {sig}")
    # two transparent fields in one struct / variant must be rejected (E-exp)
    reqs = []
    items = ["struct Ty { #[debug(transparent)] a: u8, #[debug(transparent)] b: u8 }",
             "struct Ty(#[debug(transparent)] u8, u8, #[debug(transparent)] u8);",
             "enum Ty { A, B { #[debug(transparent)] a: u8, #[debug(transparent)] b: u8 } }",
             "enum Ty { A(#[debug(transparent)] u8, #[debug(transparent)] u8) }"]
    # the same with further arguments on one of the marked fields (ignore, bound) in every position and order, and three marked fields
    T = "#[debug(transparent)]"
    for extra in ("#[debug(ignore, transparent)]", "#[debug(transparent, ignore)]", "#[debug(transparent)] #[debug(ignore)]", "#[debug(transparent, bound(..))]",
                  "#[debug(bound(), transparent)]"):
        items += [f"struct Ty {{ {T} a: u8, {extra} b: u8 }}", f"struct Ty({extra} u8, {T} u8);", f"enum Ty {{ A, B({T} u8, u8, {extra} u8) }}",
                  f"enum Ty {{ A {{ {extra} a: u8, x: u8, {T} b: u8 }} }}", f"struct Ty {{ {T} a: u8, {extra} b: u8, {extra} c: u8 }}"]
    for item in items:
        reqs.append({"id": len(reqs), "entry": "attr", "attr": "Debug", "item": item})
        reqs.append({"id": len(reqs), "entry": "derive", "attr": "", "item": "#[derive_ex(Debug)] " + item})
    # one transparent field per variant in different variants is fine
    ok_req = {"id": len(reqs), "entry": "attr", "attr": "Debug", "item": "enum Ty { A(#[debug(transparent)] u8), B { #[debug(transparent)] a: u8, b: u8 } }"}
    reqs.append(ok_req)
    obs = C.expand(reqs)
    for o, r in zip(obs, reqs):
        rep.evaluations += 1
        errs = [it for it in o.get("items", []) if it["kind"] == "compile_error"] if o.get("status") == "ok" else []
        if r is ok_req:
            if errs:
                rep.violation("C10|one-transparent-per-variant-rejected", str(r), {"request": r})
        elif not errs:
            rep.violation("C10|two-transparent-fields-accepted", f"not rejected: {r['item']}", {"request": r})
    c = cases[20]
    rep.sample({"source": "\n".join(c.code.splitlines()[2:6]), "events": [e for e in c.events if e.get("k") == "fmt"][:3]})
    rep.sample({"source": "\n".join(cases[-1].code.splitlines()[2:6])})
    # canary: a twin that keeps an ignored field must be flagged by the comparison
    ok = next(c for c in cases if c.status == "ok" and any(f["ignore"] for v in c.meta["spec"]["variants"] for f in v["fields"]))
    ev = json.loads(json.dumps(ok.events))
    for e in ev:
        if e.get("k") == "fmt":
            e["tw"] = e["tw"] + " "
            break
    rep.canary = bool(check_case(ok.meta["spec"], ev))
    rep.rule = ("struct/enum shapes (unit, tuple, named, empty braces/parens, nested derived type, generic) with every subset of <=3 "
                "fields ignored, each choice of transparent field, 12-field shapes, a field type with an inherent fmt(), scopes with blanket traits whose by-value methods are named like the fmt builders (field, finish, debug_struct ..; the std twin lives in the same scope), plus random shapes; each value is formatted with 12 format specs "
                "(alternate, width, fill/alignment, sign, precision, hex, combinations) by the derive_ex type and by a std-derived "
                "twin with the ignored fields deleted (or the transparent field alone) and the strings compared. evaluations = "
                "format calls compared; distinct_nontrivial = distinct (kind, variant style, per-field (type, ignore, transparent)).")


def replay(rep, path):
    j = json.load(open(path))["replay"]
    if "code" in j:
        c = C.compile_single(j["code"], header=HEADER)
        bad = c.status == "compile_fail" or (c.status == "ok" and check_case(j["spec"], c.events))
    else:
        o = C.expand([j["request"]])[0]
        bad = not [it for it in o.get("items", []) if it["kind"] == "compile_error"]
    if bad:
        print(f"VIOLATION property=C10 replay={path}")
        return 1
    print("replay: no violation")
    return 0
