"""C18 — Deref / DerefMut target the single field itself (E-run + E-exp refusals)."""
import json

from . import common as C

FLOOR = {"quick": 100, "thorough": 100}
HEADER = "#![allow(warnings)]"

# (field type, generics decl, where clause, instantiation args, value expr, replacement value expr)
FIELDS = [
    ("u8", "", "", "", "7u8", "9u8"),
    ("::std::string::String", "", "", "", "::std::string::String::from(\"a\")", "::std::string::String::from(\"w\")"),
    ("::std::boxed::Box<[u8]>", "", "", "", "vec![1u8, 2].into_boxed_slice()", "vec![3u8].into_boxed_slice()"),
    ("&'static str", "", "", "", "\"abc\"", "\"z\""),
    ("::std::vec::Vec<T>", "<T>", "", "<u16>", "vec![1u16, 2]", "vec![5u16]"),
    ("::std::vec::Vec<T>", "<T: ::core::clone::Clone>", "where T: ::core::default::Default", "<u16>", "vec![1u16]", "vec![]"),
    ("T", "<T>", "where T: ::core::marker::Copy", "<i64>", "-3i64", "4i64"),
    ("(T, U)", "<T, U: ::core::fmt::Debug>", "", "<u8, bool>", "(1u8, true)", "(2u8, false)"),
    ("[u8; N]", "<const N: ::core::primitive::usize>", "", "<3>", "[1u8, 2, 3]", "[0u8; 3]"),
    ("&'a [T]", "<'a, T>", "", "<'static, u8>", "&[1u8, 2][..]", "&[9u8][..]"),
    ("::std::option::Option<::std::boxed::Box<T>>", "<T: ?::core::marker::Sized>", "", "<str>", "None", "Some(::std::boxed::Box::from(\"q\"))"),
    # reference-typed fields: the target is the reference itself, not what it points to
    ("&'a mut T", "<'a, T>", "", "<'static, u16>", "::std::boxed::Box::leak(::std::boxed::Box::new(5u16))", "::std::boxed::Box::leak(::std::boxed::Box::new(6u16))"),
    ("&'a T", "<'a, T: 'a>", "", "<'static, i64>", "&7i64", "&8i64"),
    ("::std::boxed::Box<T>", "<T>", "", "<u16>", "::std::boxed::Box::new(1u16)", "::std::boxed::Box::new(2u16)"),
    # the parameter relaxed in the where-clause only: the impls must carry the relaxation too
    ("::std::boxed::Box<T>", "<T>", "where T: ?::core::marker::Sized", "<str>", "::std::boxed::Box::from(\"q\")", "::std::boxed::Box::from(\"rr\")"),
    ("&'a T", "<'a, T>", "where T: ?::core::marker::Sized + 'a", "<'static, [u8]>", "&[1u8, 2][..]", "&[3u8][..]"),
    ("::std::rc::Rc<T>", "<T>", "where T: ?::core::marker::Sized, T: ::core::fmt::Debug", "<[u8]>", "::std::rc::Rc::from(&[1u8, 2][..])", "::std::rc::Rc::from(&[9u8][..])"),
    ("*const T", "<T>", "", "<i64>", "::core::ptr::null::<i64>()", "::core::ptr::NonNull::<i64>::dangling().as_ptr() as *const i64"),
]


def accept_cases():
    out = []
    for fi, (ty, g, w, inst, v, v2) in enumerate(FIELDS):
        # the single named field is spelled `inner` or, for every third field type, with a raw identifier (a keyword as a name)
        for style in ("tuple", "named") + (("named_raw",) if fi % 3 == 0 else ()):
            fname = {"named": "inner", "named_raw": ("r#type", "r#ref", "r#fn")[(fi // 3) % 3]}.get(style)
            for entry in ("attr", "derive"):
                for traits in ("Deref, DerefMut", "Deref"):
                    head = f"#[::derive_ex::derive_ex({traits})]\n" if entry == "attr" else f"#[derive(::derive_ex::Ex)]\n#[derive_ex({traits})]\n"
                    if style == "tuple":
                        item = f"pub struct Ty{g}(pub {ty}) {w};"
                        ctor, acc = f"Ty({v})", "x.0"
                    else:
                        item = f"pub struct Ty{g} {w} {{ pub {fname}: {ty} }}"
                        ctor, acc = f"Ty {{ {fname}: {v} }}", f"x.{fname}"
                    tyi = ty.replace("'a", "'static")
                    # concrete field type of the instantiation
                    conc = {"<u16>": tyi.replace("T", "u16"), "<i64>": "i64", "<u8, bool>": "(u8, bool)", "<3>": "[u8; 3]",
                            "<'static, u8>": "&'static [u8]", "<str>": "::std::option::Option<::std::boxed::Box<str>>"}.get(inst, tyi)
                    if "?::core::marker::Sized" in w:
                        conc = tyi.replace("<T>", inst.replace("'static, ", "")) if "<T>" in tyi else tyi.replace("T", inst.strip("<>").split(", ")[-1])
                    elif ty in ("&'a mut T", "&'a T", "*const T"):
                        conc = tyi.replace("T", inst.strip("<>").split(", ")[-1])
                    body = [f"let mut x: Ty{inst} = {ctor};",
                            f"let p1 = (&*x) as *const {conc}; let p2 = (&{acc}) as *const {conc};",
                            f'let tid = ::core::any::TypeId::of::<<Ty{inst} as ::core::ops::Deref>::Target>() == ::core::any::TypeId::of::<{conc}>();',
                            '::dxrt::ev!("deref", "same_addr" => ::core::ptr::eq(p1, p2), "target_is_field_type" => tid);']
                    if "DerefMut" in traits:
                        body += [f"let q1 = (&mut *x) as *mut {conc} as usize; let q2 = (&mut {acc}) as *mut {conc} as usize;",
                                 f"*::core::ops::DerefMut::deref_mut(&mut x) = {v2};",
                                 f"let want: {conc} = {v2};",
                                 f'::dxrt::ev!("deref_mut", "same_addr" => q1 == q2, "write_landed" => {acc} == want);']
                    code = head + item + "\npub fn run() {\n" + "\n".join(body) + "\n}"
                    out.append((code, {"field": ty, "style": style, "entry": entry, "traits": traits}))
    return out


def extra_cases():
    """Field types that reach the macro in an unusual form: a bare trait object (the struct itself is unsized), and field types
    / array lengths handed in through macro_rules! fragments (invisible groups)."""
    out = []
    D = "::core::fmt::Debug"
    for entry in ("attr", "derive"):
        head = "#[::derive_ex::derive_ex(Deref, DerefMut)]" if entry == "attr" else "#[derive(::derive_ex::Ex)] #[derive_ex(Deref, DerefMut)]"
        obs = ('let p1 = (&*x) as *const _ as *const u8; let p2 = (&x.0) as *const _ as *const u8;\n'
               '::dxrt::ev!("deref", "same_addr" => ::core::ptr::eq(p1, p2), "target_is_field_type" => tid);')
        # 1. bare trait object, with and without further bounds, written in place
        for k, t in enumerate((f"dyn {D}", f"dyn {D} + Send", f"(dyn {D})")):
            code = (f"#[repr(transparent)] {head}\npub struct Ty(pub {t});\n"
                    f"pub fn run() {{ let v = 5u8; let r: &({t.strip('()')}) = &v; let x: &Ty = unsafe {{ &*(r as *const ({t.strip('()')}) as *const Ty) }};\n"
                    f"fn tgt(x: &Ty) -> &({t.strip('()')} + 'static) {{ ::core::ops::Deref::deref(x) }} let tid = ::core::ptr::eq(tgt(x) as *const _ as *const u8, r as *const _ as *const u8);\n{obs} }}")
            out.append((code, {"field": f"bare {t}", "style": "tuple", "entry": entry, "traits": "Deref"}))
        # 1b. trait objects deeper inside the field type, and a trait whose lifetime parameter bounds the object
        for k, (t, mk) in enumerate(((f"*const dyn {D}", f"&5u8 as &dyn {D} as *const dyn {D}"),
                                     (f"[*const dyn {D}; 2]", f"[&5u8 as &dyn {D} as *const dyn {D}, &6u8 as &dyn {D} as *const dyn {D}]"),
                                     (f"(u8, *mut (dyn {D} + Send))", f"(1u8, ::core::ptr::null_mut::<u8>() as *mut (dyn {D} + Send))"))):
            code = (f"{head}\npub struct Ty(pub {t});\n"
                    f"pub fn run() {{ let mut x = Ty({mk}); let tid = ::core::any::TypeId::of::<<Ty as ::core::ops::Deref>::Target>() == ::core::any::TypeId::of::<{t}>();\n{obs}\n"
                    f"let q1 = (&mut *x) as *mut _ as *mut u8 as usize; let q2 = (&mut x.0) as *mut _ as *mut u8 as usize;\n"
                    '::dxrt::ev!("deref_mut", "same_addr" => q1 == q2, "write_landed" => true); }')
            out.append((code, {"field": f"nested {t}", "style": "tuple", "entry": entry, "traits": "Deref, DerefMut"}))
        code = (f"pub trait TrL<'a>: 'a {{ fn v(&self) -> u8; }}\nimpl<'a> TrL<'a> for u8 {{ fn v(&self) -> u8 {{ *self }} }}\n"
                f"#[repr(transparent)] {head}\npub struct Ty<'a>(pub dyn TrL<'a>);\n"
                "pub fn run() { let v = 5u8; let r: &dyn TrL<'_> = &v; let x: &Ty<'_> = unsafe { &*(r as *const dyn TrL<'_> as *const Ty<'_>) };\n"
                "fn tgt<'r, 'a>(x: &'r Ty<'a>) -> &'r (dyn TrL<'a> + 'a) { ::core::ops::Deref::deref(x) } let tid = tgt(x).v() == 5;\n" + obs + " }")
        out.append((code, {"field": "dyn TrL<'a> with TrL<'a>: 'a", "style": "tuple", "entry": entry, "traits": "Deref"}))
        # 2. `&'a $t` / `Box<$t>` with `$t = dyn Debug + Send`
        code = (f"macro_rules! mk {{ ($n:ident, $t:ty) => {{ {head} pub struct $n<'a>(pub &'a $t); }} }}\nmk!(Ty, dyn {D} + Send);\n"
                f"pub fn run() {{ let v = 5u8; let x = Ty(&v); let tid = ::core::any::TypeId::of::<<Ty<'static> as ::core::ops::Deref>::Target>() == ::core::any::TypeId::of::<&'static (dyn {D} + Send)>();\n{obs} }}")
        out.append((code, {"field": "&'a $t, $t = dyn A + B", "style": "tuple", "entry": entry, "traits": "Deref"}))
        code = (f"macro_rules! mk {{ ($n:ident, $t:ty) => {{ {head} pub struct $n {{ pub inner: ::std::boxed::Box<$t> }} }} }}\nmk!(Ty, dyn {D} + Send);\n"
                f"pub fn run() {{ let x = Ty {{ inner: ::std::boxed::Box::new(5u8) }}; let tid = ::core::any::TypeId::of::<<Ty as ::core::ops::Deref>::Target>() == ::core::any::TypeId::of::<::std::boxed::Box<dyn {D} + Send>>();\n"
                + obs.replace("x.0", "x.inner") + " }")
        out.append((code, {"field": "Box<$t>, $t = dyn A + B", "style": "named", "entry": entry, "traits": "Deref"}))
        # 3. an array length built from an `$e:expr` fragment
        code = (f"macro_rules! mk {{ ($n:ident, $e:expr) => {{ {head} pub struct $n(pub [u8; 2 * $e]); pub const WANT: usize = 2 * ($e); }} }}\nmk!(Ty, 1 + 2);\n"
                "pub fn run() { let mut x = Ty([7u8; WANT]); let tid = ::core::any::TypeId::of::<<Ty as ::core::ops::Deref>::Target>() == ::core::any::TypeId::of::<[u8; 6]>() && ::core::mem::size_of::<Ty>() == 6;\n"
                f"{obs}\n"
                "let q1 = (&mut *x) as *mut [u8; 6] as usize; let q2 = (&mut x.0) as *mut [u8; 6] as usize; *::core::ops::DerefMut::deref_mut(&mut x) = [1u8; 6];\n"
                '::dxrt::ev!("deref_mut", "same_addr" => q1 == q2, "write_landed" => x.0 == [1u8; 6]); }')
        out.append((code, {"field": "[u8; 2 * $e], $e = 1 + 2", "style": "tuple", "entry": entry, "traits": "Deref, DerefMut"}))
    return out


def refusal_reqs():
    reqs, meta = [], []
    PH = "::core::marker::PhantomData"
    for n in (0, 1, 2, 3, 4):
        for style in ("tuple", "named", "unit"):
            if style == "unit" and n != 0:
                continue
            for g in ("", "<T>"):
                p = "T" if g else "u8"
                # field-type pools: ordinary types, and shapes whose extra fields are markers / zero-sized (still several fields)
                pools = [["u8", "::std::string::String", "T" if g else "i8", "bool"]]
                if n >= 2:
                    pools += [[f"{PH}<{p}>", "u8", f"{PH}<()>", "()"], ["u8", f"PhantomData<{p}>", "()", "[u8; 0]"],
                              [p, p, p, p], ["()", f"std::marker::PhantomData<{p}>", "u8", f"{PH}<u8>"]]
                for tys in pools:
                    tys = tys[:n]
                    if style == "tuple":
                        item = f"struct Ty{g}(" + ", ".join(tys) + ");"
                    elif style == "named":
                        item = f"struct Ty{g} {{ " + ", ".join(f"f{i}: {t}" for i, t in enumerate(tys)) + " }"
                    else:
                        item = f"struct Ty{g};"
                    for traits in (["Deref"], ["DerefMut"], ["Deref", "DerefMut"], ["Clone", "Deref"]):
                        for entry in ("attr", "derive"):
                            tl = ", ".join(traits)
                            if entry == "attr":
                                reqs.append({"id": len(reqs), "entry": "attr", "attr": tl, "item": item})
                            else:
                                reqs.append({"id": len(reqs), "entry": "derive", "attr": "", "item": f"#[derive_ex({tl})] {item}"})
                            meta.append((n, style, traits, entry))
    return reqs, meta


def judge_refusal(o, n, traits, entry):
    if o.get("status") != "ok" or not o.get("parses"):
        return "expansion-failed"
    slots, rest = C.impl_slots(o["items"], traits, skip_first_item=(entry == "attr"))
    for s in slots:
        if s["trait"] not in ("Deref", "DerefMut"):
            continue
        want = "impl" if n == 1 else "error"
        if s["status"] != want:
            return f"{s['trait']}-with-{n}-fields-{s['status']}"
        if want == "impl" and s["items"][0].get("trait") != s["trait"]:
            return "wrong-impl"
    return None


def run(rep, tier, rng):
    reqs, meta = refusal_reqs()
    obs = C.expand(reqs)
    for o, (n, style, traits, entry) in zip(obs, meta):
        rep.evaluations += 1
        rep.count("refusal_points")
        rep.nontrivial.add(("arity", n, style, tuple(traits)))
        r = judge_refusal(o, n, traits, entry)
        if r:
            rep.violation(f"C18|{r}|{style}", f"{r}: {reqs[o['id']]}", {"request": reqs[o["id"]], "n": n, "traits": traits, "entry": entry})
    acc = accept_cases() + extra_cases()
    cases = [C.Case(f"c{i}", code, m) for i, (code, m) in enumerate(acc)]
    _, notes = C.run_cases(cases, "c18", header=HEADER, batch_size=12)
    for n in notes:
        rep.inconcl(n)
    for c in cases:
        if c.status == "inconclusive":
            continue
        rep.evaluations += 1
        rep.nontrivial.add((c.meta["field"], c.meta["style"], c.meta["traits"]))
        if c.status == "compile_fail":
            msg = next((d["message"] for d in c.diags if d["level"] == "error"), "")
            rep.violation(f"C18|compile_fail|{c.meta['field']}|{msg[:40]}", f"single-field struct does not compile: {msg[:200]}\n{c.code[:300]}",
                          {"code": c.code})
            continue
        rep.count("shapes_run")
        for e in c.events:
            if e.get("k") == "panic":
                rep.violation("C18|panic", c.code[:300], {"code": c.code})
            if e.get("k") in ("deref", "deref_mut"):
                rep.count("observations_" + e["k"])
                for key in ("same_addr", "target_is_field_type", "write_landed"):
                    if key in e and e[key] is not True:
                        rep.violation(f"C18|{e['k']}:{key}|{c.meta['field']}", f"{key} is false for\n{c.code[:400]}", {"code": c.code})
        need = {"deref"} | ({"deref_mut"} if "DerefMut" in c.meta["traits"] else set())
        if not need <= {e.get("k") for e in c.events}:
            rep.inconcl("missing observation in " + c.name)
    # DerefMut derived alone, next to a hand-written Deref: fine when its Target is the field's type; when the Target is only
    # something the field coerces to (String -> str, Vec<u8> -> [u8]) the derived deref_mut must not type-check
    mixed = []
    for fty, tgt, good, val in (("::std::string::String", "str", True, "::std::string::String::from(\"ab\")"), ("::std::vec::Vec<u8>", "[u8]", True, "vec![1u8]"),
                                ("::std::string::String", "::std::string::String", False, "::std::string::String::from(\"ab\")"),
                                ("::std::boxed::Box<u8>", "u8", True, "::std::boxed::Box::new(1u8)")):
        for entry in ("attr", "derive"):
            head = "#[::derive_ex::derive_ex(DerefMut)]" if entry == "attr" else "#[derive(::derive_ex::Ex)]\n#[derive_ex(DerefMut)]"
            code = (f"{head}\npub struct Ty(pub {fty});\nimpl ::core::ops::Deref for Ty {{ type Target = {tgt}; fn deref(&self) -> &{tgt} {{ &self.0 }} }}\n"
                    f"pub fn run() {{ let mut x = Ty({val}); let q1 = (&mut *x) as *mut {tgt} as *mut u8 as usize; let q2 = (&mut x.0) as *mut {fty} as *mut u8 as usize; "
                    f'::dxrt::ev!("deref_mut", "same_addr" => q1 == q2); }}')
            mixed.append(C.Case(f"m{len(mixed)}", code, {"coerced": good, "what": f"{fty} -> {tgt} ({entry})"}))
    _, mnotes = C.run_cases([c for c in mixed if not c.meta["coerced"]], "c18m", header=HEADER, batch_size=4)
    _, mnotes2 = C.run_cases([c for c in mixed if c.meta["coerced"]], "c18n", header=HEADER, batch_size=1)
    for n in mnotes + mnotes2:
        rep.inconcl(n)
    for c in mixed:
        if c.status == "inconclusive":
            continue
        rep.evaluations += 1
        rep.count("derefmut_next_to_handwritten_deref")
        if c.meta["coerced"]:
            if c.status == "ok":
                rep.violation(f"C18|derefmut-accepts-coerced-target|{c.meta['what'].split()[0]}",
                              f"DerefMut derived next to a hand-written Deref whose Target is not the field's type compiles ({c.meta['what']}): deref_mut does not return the field itself\n{c.code[:300]}",
                              {"code": c.code, "expect_refused": True})
        else:
            if c.status != "ok" or not any(e.get("k") == "deref_mut" and e["same_addr"] is True for e in c.events):
                rep.violation(f"C18|derefmut-alone|{c.meta['what'].split()[0]}", f"DerefMut alone next to a hand-written Deref<Target = field type> fails: {c.meta['what']}\n{c.code[:300]}", {"code": c.code})
    rep.sample({"source": cases[2].code, "events": cases[2].events})
    rep.sample({"refusal_request": reqs[10], "slots": [it["kind"] for it in obs[10].get("items", [])]})
    # canary: the refusal judge must flag an arity-2 struct reported as having arity 1
    o2 = next(o for o, m in zip(obs, meta) if m[0] == 2 and m[2] == ["Deref"])
    rep.canary = judge_refusal(o2, 1, ["Deref"], meta[o2["id"]][3]) is not None
    rep.exhaustive = True
    rep.rule = (f"complete over the shape table: {len(FIELDS)} single-field shapes (tuple/named, generics with bounds and where-clauses (also `T: ?Sized` given only there), const "
                "and lifetime parameters, ?::core::marker::Sized, unsized-capable field types) x entry x {Deref, Deref+DerefMut}, plus a bare trait-object field and field types / array lengths handed in through macro_rules! fragments, compiled with "
                "the real proc-macro and observed at run time (address identity, TypeId of Target, write-through); and arities "
                "0-4 x struct kind x field-type pool (ordinary types; PhantomData / () / [u8; 0] markers next to one real field; "
                "all fields of one type) x trait lists x entry for the refusal, judged on the in-process expansion.")


def replay(rep, path):
    j = json.load(open(path))["replay"]
    if j.get("expect_refused"):
        c = C.compile_single(j["code"], header=HEADER)
        bad = c.status == "ok"
    elif "code" in j:
        c = C.compile_single(j["code"], header=HEADER)
        bad = c.status == "compile_fail" or any(e.get(k) is False for e in c.events for k in ("same_addr", "target_is_field_type", "write_landed"))
    else:
        o = C.expand([j["request"]])[0]
        bad = judge_refusal(o, j["n"], j["traits"], j["entry"]) is not None
    if bad:
        print(f"VIOLATION property=C18 replay={path}")
        return 1
    print("replay: no violation")
    return 0
