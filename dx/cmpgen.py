"""Generator + reference model for types with derived comparison traits (C01, C06; reused by C13/C20).

A *spec* describes one type; `render(spec)` gives the Rust text of one case module (type definition with
derive_ex, reference tables computed by hand-written code, observed matrices); `predict(spec, tables)`
composes the documented rule in Python from the per-field primitive tables the program printed."""
import itertools

from . import cmpmodel as M

CMP4 = ["Ord", "PartialOrd", "Eq", "PartialEq"]
TOTAL = {"PartialEq", "Eq", "PartialOrd", "Ord", "Hash"}
PARTIAL = {"PartialEq", "PartialOrd", "Hash"}

# field type table: caps, domain (value exprs), key templates per attribute [(template, key caps)], by exprs per attribute
V = "::dxrt::V"
P = "::dxrt::P"
FT = {
    "V": {
        "ty": V, "caps": TOTAL, "dom": [f"{V}({i})" for i in range(6)],
        "key": {
            "ord": [("::dxrt::k_ord(&$)", TOTAL), ("::dxrt::kp_ord(&$)", PARTIAL), ("($.0 % 2)", TOTAL), ("$", TOTAL),
                    ("{ let x = &$; ::dxrt::k_ord(x) }", TOTAL)],
            "partial_ord": [("::dxrt::k_pord(&$)", TOTAL), ("::dxrt::kp_pord(&$)", PARTIAL), ("[$.0 % 3, $.0][0]", TOTAL), ("$", TOTAL)],
            # (`key = $`: the field itself is the key - it still takes the place of less specific attributes)
            "eq": [("::dxrt::k_eq(&$)", TOTAL), ("($.0 / 2, [$.0 / 2])", TOTAL), ("$", TOTAL)],
            "partial_eq": [("::dxrt::k_peq(&$)", TOTAL), ("::core::cmp::min($.0 / 3, ($).0)", TOTAL), ("$", TOTAL)],
            "hash": [("::dxrt::k_hash(&$)", TOTAL), ("(($.0 + 1) / 2) as u32", TOTAL), ("$", TOTAL)],
        },
        "by": {
            "ord": ["::dxrt::b_ord", "|a, b| ::dxrt::b_ord(a, b)"],
            "partial_ord": ["::dxrt::b_pord", "|a: &::dxrt::V, b: &::dxrt::V| ::dxrt::b_pord(a, b)"],
            "eq": ["::dxrt::b_eq"], "partial_eq": ["::dxrt::b_peq", "|a, b| ::dxrt::b_peq(a, b)"],
            "hash": ["::dxrt::b_hash"],
        },
    },
    "P": {
        "ty": P, "caps": PARTIAL, "dom": [f"{P}(0)", f"{P}(1)", f"{P}(9)", f"{P}(2)"],
        "key": {
            "ord": [("$.0", TOTAL)], "partial_ord": [("($.0 % 2)", TOTAL), ("::dxrt::P($.0 / 2 * 9)", PARTIAL)],
            "eq": [("($.0 / 2)", TOTAL)], "partial_eq": [("($.0 % 3)", TOTAL)], "hash": [("::dxrt::p_key(&$)", TOTAL)],
        },
        "by": {
            "ord": ["::dxrt::P::total_cmp", "::dxrt::p_total"], "partial_ord": ["::dxrt::p_ptotal"],
            "eq": ["::dxrt::p_teq"], "partial_eq": ["|a, b| a.total_eq(b)"], "hash": ["::dxrt::p_hash"],
        },
    },
    "VecV": {
        "ty": f"::std::vec::Vec<{V}>", "caps": TOTAL,
        "dom": ["::std::vec::Vec::new()", f"vec![{V}(1)]", f"vec![{V}(0), {V}(2)]", f"vec![{V}(1), {V}(0)]"],
        "key": {
            "ord": [("$.len()", TOTAL)], "partial_ord": [("($.len() % 2)", TOTAL)],
            "eq": [("$.first().map(|v| v.0)", TOTAL)], "partial_eq": [("$.iter().map(|v| v.0 as u32).sum::<u32>()", TOTAL)],
            "hash": [("($.len() / 2)", TOTAL)],
        },
        "by": {
            "ord": ["|a, b| a.len().cmp(&b.len())"], "partial_ord": ["|a, b| a.last().partial_cmp(&b.last())"],
            "eq": ["|a, b| a.len() == b.len()"], "partial_eq": ["|a, b| a.first() == b.first()"],
            "hash": ["|a, h| ::core::hash::Hasher::write_usize(h, a.len())"],
        },
    },
    "PairV": {
        "ty": f"({V}, {V})", "caps": TOTAL,
        "dom": [f"({V}(0), {V}(0))", f"({V}(0), {V}(1))", f"({V}(1), {V}(0))", f"({V}(1), {V}(1))"],
        "key": {
            "ord": [("$.0", TOTAL)], "partial_ord": [("$.1", TOTAL)], "eq": [("($.0.0 + $.1.0)", TOTAL)],
            "partial_eq": [("($.0.0 ^ $.1.0)", TOTAL)], "hash": [("$.1", TOTAL)],
        },
        "by": {
            "ord": ["|a, b| a.1.cmp(&b.1)"], "partial_ord": ["|a, b| a.0.partial_cmp(&b.0)"],
            "eq": ["|a, b| a.0 == b.0"], "partial_eq": ["|a, b| a.1 == b.1"],
            "hash": ["|a, h| ::core::hash::Hash::hash(&a.0, h)"],
        },
    },
    # a type with inherent methods named eq / cmp / partial_cmp / hash / ... that behave differently from its trait impls:
    # derived code has to compare and hash it through the traits
    "Sh": {
        "ty": "::dxrt::Sh", "caps": TOTAL, "dom": [f"::dxrt::Sh({i})" for i in range(4)],
        "key": {
            "ord": [("$.0", TOTAL)], "partial_ord": [("($.0 % 2)", TOTAL)], "eq": [("($.0 / 2)", TOTAL)],
            "partial_eq": [("($.0 % 3)", TOTAL)], "hash": [("($.0 / 2) as u32", TOTAL)],
        },
        "by": {
            "ord": ["|a, b| ::core::cmp::Ord::cmp(&b.0, &a.0)"], "partial_ord": ["|a, b| ::core::cmp::PartialOrd::partial_cmp(&a.0, &b.0)"],
            "eq": ["|a, b| a.0 / 2 == b.0 / 2"], "partial_eq": ["|a, b| a.0 % 2 == b.0 % 2"],
            "hash": ["|a, h| ::core::hash::Hasher::write_u8(h, a.0)"],
        },
    },
    # fields whose type mentions the type parameter T (instantiated with V); keys go through the declared bound T: HasK
    "T": {
        "ty": "T", "caps": TOTAL, "dom": [f"{V}({i})" for i in range(6)], "generic": True,
        "key": {
            "ord": [("::dxrt::HasK::k1(&$)", TOTAL)], "partial_ord": [("::dxrt::HasK::k2(&$)", TOTAL)],
            "eq": [("::dxrt::HasK::k3(&$)", TOTAL)], "partial_eq": [("::dxrt::HasK::k4(&$)", TOTAL)],
            "hash": [("::dxrt::HasK::k5(&$)", TOTAL)],
        },
        "by": {
            "ord": ["|a, b| ::dxrt::HasK::k3(a).cmp(&::dxrt::HasK::k3(b))"],
            "partial_ord": ["|a, b| ::dxrt::HasK::k1(a).partial_cmp(&::dxrt::HasK::k1(b))"],
            "eq": ["|a, b| ::dxrt::HasK::k2(a) == ::dxrt::HasK::k2(b)"],
            "partial_eq": ["|a, b| ::dxrt::HasK::k5(a) == ::dxrt::HasK::k5(b)"],
            "hash": ["|a, h| ::core::hash::Hasher::write_u8(h, ::dxrt::HasK::k4(a))"],
        },
    },
    "OptT": {
        "ty": "::core::option::Option<T>", "caps": TOTAL, "generic": True,
        "dom": ["::core::option::Option::None", f"::core::option::Option::Some({V}(0))", f"::core::option::Option::Some({V}(3))"],
        "key": {
            "ord": [("$.is_some()", TOTAL)], "partial_ord": [("$.as_ref().map(|t| ::dxrt::HasK::k2(t))", TOTAL)],
            "eq": [("$.is_none()", TOTAL)], "partial_eq": [("$.as_ref().map(|t| ::dxrt::HasK::k4(t))", TOTAL)],
            "hash": [("$.is_some() as u8", TOTAL)],
        },
        "by": {
            "ord": ["|a, b| a.is_some().cmp(&b.is_some())"], "partial_ord": ["|a, b| a.is_none().partial_cmp(&b.is_none())"],
            "eq": ["|a, b| a.is_some() == b.is_some()"], "partial_eq": ["|a, b| a.is_none() == b.is_none()"],
            "hash": ["|a, h| ::core::hash::Hasher::write_u8(h, a.is_some() as u8)"],
        },
    },
}


def field_ok(ft, combo, keysel, derived, hash_ignore_ok=False):
    """Is the field well typed for every derived trait under the documented source selection?"""
    for t in derived:
        st = M.status(t, combo)
        if st == "dontcare" and t == "Hash" and hash_ignore_ok and M.flags(combo[4])["ignore"]:
            st = "accept"
        if st != "accept":
            return False
        kind, attr = M.source(t, combo)
        if kind == "ignored" or kind == "by":
            continue
        if kind == "field":
            if t not in FT[ft]["caps"]:
                return False
        else:
            if t not in keysel[attr][1]:
                return False
    # helper attributes must belong to a derived trait, otherwise they are foreign attributes (C14)
    for a, o in zip(M.ATTRS, combo):
        if o != "-" and not any(t in derived for t in M.OWNS[a]):
            return False
    return True


def gen_field(rng, derived, ft=None, plain_p=0.35, allow_generic=False, max_attrs=3, hash_ignore_ok=False):
    fts = [k for k in FT if allow_generic or not FT[k].get("generic")]
    combos = M.all_combos()
    for _ in range(400):
        f = ft or rng.choice(fts)
        if rng.random() < plain_p:
            combo = ("-",) * 5
        else:
            combo = rng.choice(combos)
            if sum(o != "-" for o in combo) > max_attrs:
                continue
        keysel = {a: rng.choice(FT[f]["key"][a]) for a in M.ATTRS}
        bysel = {a: rng.choice(FT[f]["by"][a]) for a in M.ATTRS}
        if field_ok(f, combo, keysel, derived, hash_ignore_ok):
            nd = rng.choice([2, 3, 3, 4])
            dom = FT[f]["dom"][:]
            rng.shuffle(dom)
            dom = dom[:nd]
            if f == "P" and f"{P}(9)" not in dom and rng.random() < 0.7:
                dom[0] = f"{P}(9)"
            # V(4) / V(5) are where the partial key / by functions answer None: keep them in most domains
            if f in ("V", "T") and combo != ("-",) * 5 and rng.random() < 0.8:
                for special in (f"{V}(5)", f"{V}(4)"):
                    if special not in dom and len(dom) >= 2:
                        dom[rng.randrange(len(dom))] = special
                dom = list(dict.fromkeys(dom))
            return {"ft": f, "combo": combo, "key": {a: keysel[a][0] for a in M.ATTRS},
                    "keycaps": {a: sorted(keysel[a][1]) for a in M.ATTRS}, "by": bysel, "dom": dom}
    return None


def gen_spec(rng, derived, entry=None, kind=None, max_vals=40, allow_generic=True, hash_ignore_ok=False, plain_p=0.35):
    kind = kind or rng.choice(["struct", "struct", "enum", "enum", "enum"])
    # hand-written supertrait impls cannot be given bounds that fit every derived companion of a generic
    # type, so generic types are only generated for supertrait-closed derive sets
    closed = all(all(x in derived for x in M.SUPER.get(t, [])) for t in derived)
    generic = allow_generic and closed and rng.random() < 0.35
    nvar = 1 if kind == "struct" else rng.choice([1, 2, 2, 3, 3, 4])
    variants = []
    for vi in range(nvar):
        style = rng.choice(["named", "tuple", "unit"] if kind == "enum" or True else ["named"])
        nf = 0 if style == "unit" else rng.randint(0 if kind == "enum" else 1, 4)
        fields = []
        for _ in range(nf):
            f = gen_field(rng, derived, allow_generic=generic, hash_ignore_ok=hash_ignore_ok, plain_p=plain_p)
            if f is None:
                return None
            fields.append(f)
        variants.append({"style": style if nf or style == "unit" else style, "fields": fields})
    spec = {"kind": kind, "variants": variants, "derived": list(derived),
            "entry": entry or rng.choice(["attr", "derive"]), "generic": generic,
            "attr_order": rng.random()}
    # how the user wrote it: trait list split over two attributes, explicit (decreasing) discriminants, Debug co-derived
    # with #[debug(ignore)] on some fields - none of which may change a comparison or the hash feed
    if rng.random() < 0.25:
        spec["split"] = rng.randint(1, 4)
    if rng.random() < 0.2:
        spec["fdoc"] = True
    if kind == "enum" and rng.random() < 0.3:
        spec["disc"] = rng.choice([True, True, "mixed"])
    if rng.random() < 0.2:
        spec["codebug"] = rng.choice(["first", "last"])
        for v in variants:
            for f in v["fields"]:
                f["dbg_ignore"] = rng.random() < 0.5
    # a generic spec must actually mention T somewhere
    uses_t = any(FT[f["ft"]].get("generic") for v in variants for f in v["fields"])
    spec["generic"] = uses_t
    # cap the number of values: shrink domains until the product fits
    while count_vals(spec) > max_vals:
        big = max((f for v in variants for f in v["fields"]), key=lambda f: len(f["dom"]))
        if len(big["dom"]) <= 1:
            break
        big["dom"].pop()
    return spec


def count_vals(spec):
    n = 0
    for v in spec["variants"]:
        p = 1
        for f in v["fields"]:
            p *= len(f["dom"])
        n += p
    return n


def values(spec):
    """List of (variant index, tuple of domain indices)."""
    out = []
    for vi, v in enumerate(spec["variants"]):
        for idx in itertools.product(*[range(len(f["dom"])) for f in v["fields"]]):
            out.append((vi, idx))
    return out


# ---------------------------------------------------------------------------
# rendering
# ---------------------------------------------------------------------------

def field_attr_text(f, spec):
    attrs = M.render_attrs(f["combo"], f["key"], f["by"])
    if attrs and spec.get("fdoc"):
        # foreign attributes around the helper attributes (a doc comment is a `name = value` attribute)
        attrs = ['#[doc = "d"]'] + attrs[:1] + ["#[allow(unused)]"] + attrs[1:]
    return " ".join(attrs)


def derive_lists(spec, derive_attr):
    """The derive_ex argument lists of the type: one list, or - spec["split"] = k - the traits split into two attributes
    after the k-th; spec["codebug"] adds Debug (whose helper attribute #[debug(ignore)] sits on some fields)."""
    traits = derive_attr.split(", ")
    if spec.get("codebug") == "first":
        traits = ["Debug"] + traits
    elif spec.get("codebug"):
        traits = traits + ["Debug"]
    k = spec.get("split")
    if k and len(traits) >= 2:
        k = 1 + (k - 1) % (len(traits) - 1)
        return [", ".join(traits[:k]), ", ".join(traits[k:])]
    return [", ".join(traits)]


def type_text(spec, name="Ty", derive_attr=None, field_attrs=True, extra_type_attrs=""):
    g = "<T: ::dxrt::HasK>" if spec["generic"] else ""
    body = []
    for vi, v in enumerate(spec["variants"]):
        fs = []
        for fi, f in enumerate(v["fields"]):
            a = (field_attr_text(f, spec) + " ") if field_attrs else ""
            if field_attrs and spec.get("codebug") and f.get("dbg_ignore"):
                a = "#[debug(ignore)] " + a if fi % 2 else a + "#[debug(ignore)] "
            ty = FT[f["ft"]]["ty"]
            fs.append(f"{a}f{fi}: {ty}" if v["style"] == "named" else f"{a}{ty}")
        if v["style"] == "named":
            b = "{ " + ", ".join(fs) + " }"
        elif v["style"] == "tuple":
            b = "(" + ", ".join(fs) + ")"
        else:
            b = ""
        body.append((vi, b))
    head = ""
    if derive_attr is not None:
        lists = derive_lists(spec, derive_attr)
        if spec["entry"] == "attr":
            head = f"#[::derive_ex::derive_ex({lists[0]})]\n" + "".join(f"#[derive_ex({x})]\n" for x in lists[1:])
        else:
            head = "#[derive(::derive_ex::Ex)]\n" + "".join(f"#[derive_ex({x})]\n" for x in lists)
    head += extra_type_attrs
    if spec["kind"] == "struct":
        b = body[0][1]
        if spec["variants"][0]["style"] == "named":
            return f"{head}pub struct {name}{g} {b}"
        return f"{head}pub struct {name}{g}{b};"
    # spec["disc"]: explicit discriminants that DEcrease in declaration order (cross-variant order is by declaration)
    nv = len(body)
    disc = (lambda vi: f" = {(nv - vi) * 3}") if spec.get("disc") else (lambda vi: "")
    if spec.get("disc") == "mixed":
        # explicit on the first variant only: its value (1) equals the position of the second variant
        disc = lambda vi: " = 1" if vi == 0 else ""
    rep = "#[repr(u8)]\n" if spec.get("disc") else ""
    vs = ", ".join(f"V{vi}{b}{disc(vi)}" for vi, b in body)
    return f"{head}{rep}pub enum {name}{g} {{ {vs} }}"


def ctor(spec, vi, idx, name="Ty"):
    v = spec["variants"][vi]
    vals = [f["dom"][i] for f, i in zip(v["fields"], idx)]
    head = name if spec["kind"] == "struct" else f"{name}::V{vi}"
    if v["style"] == "named":
        return head + " { " + ", ".join(f"f{i}: {x}" for i, x in enumerate(vals)) + " }"
    if v["style"] == "tuple":
        return head + "(" + ", ".join(vals) + ")"
    return head


def concrete_ty(f):
    return FT[f["ft"]]["ty"].replace("<T>", f"<{V}>") if FT[f["ft"]]["ty"] != "T" else V


def subst(template, var):
    return template.replace("$", f"(*{var})")


def ref_tables_code(spec, want_hash=False):
    """Hand-written reference code: per field primitive tables over the field's domain."""
    out = []
    for vi, v in enumerate(spec["variants"]):
        for fi, f in enumerate(v["fields"]):
            fid = f"{vi}.{fi}"
            ty = concrete_ty(f)
            n = len(f["dom"])
            out.append(f"{{ let d: ::std::vec::Vec<{ty}> = vec![{', '.join(f['dom'])}];")
            caps = FT[f["ft"]]["caps"]
            srcs = []
            if True:
                srcs.append(("raw", "a", "b", caps))
            fl = M.combo_flags(f["combo"])
            for a in M.ATTRS:
                if fl[a]["key"]:
                    srcs.append((f"key:{a}", None, None, set(f["keycaps"][a])))
            for name, ea, eb, cp in srcs:
                if name == "raw":
                    xa, xb = "(*a)", "(*b)"
                else:
                    a_ = name.split(":")[1]
                    xa, xb = subst(f["key"][a_], "a"), subst(f["key"][a_], "b")
                if "PartialEq" in cp:
                    out.append(f' let mut s = ::std::string::String::new(); for a in &d {{ for b in &d {{ s.push(::dxrt::bool_c(::core::cmp::PartialEq::eq(&({xa}), &({xb})))); }} }} ::dxrt::ev!("tab", "f" => "{fid}", "src" => "{name}", "op" => "eq", "m" => s);')
                if "PartialOrd" in cp:
                    out.append(f' let mut s = ::std::string::String::new(); for a in &d {{ for b in &d {{ s.push(::dxrt::pord_c(::core::cmp::PartialOrd::partial_cmp(&({xa}), &({xb})))); }} }} ::dxrt::ev!("tab", "f" => "{fid}", "src" => "{name}", "op" => "pcmp", "m" => s);')
                if "Ord" in cp:
                    out.append(f' let mut s = ::std::string::String::new(); for a in &d {{ for b in &d {{ s.push(::dxrt::ord_c(::core::cmp::Ord::cmp(&({xa}), &({xb})))); }} }} ::dxrt::ev!("tab", "f" => "{fid}", "src" => "{name}", "op" => "cmp", "m" => s);')
                if want_hash and "Hash" in cp:
                    out.append(f' let mut l = ::std::vec::Vec::new(); for a in &d {{ l.push(::dxrt::RecHasher::of(&({xa}))); }} ::dxrt::ev!("tab", "f" => "{fid}", "src" => "{name}", "op" => "hash", "l" => l);')
            for a in M.ATTRS:
                if not fl[a]["by"]:
                    continue
                by = f["by"][a]
                if a == "hash":
                    if want_hash:
                        out.append(f' {{ fn __call<HH: ::core::hash::Hasher>(f: impl ::core::ops::Fn(&{ty}, &mut HH), x: &{ty}, h: &mut HH) {{ f(x, h) }} let mut l = ::std::vec::Vec::new(); for a in &d {{ let mut h = ::dxrt::RecHasher::new(); __call({by}, a, &mut h); l.push(h.take()); }} ::dxrt::ev!("tab", "f" => "{fid}", "src" => "by:hash", "op" => "hash", "l" => l); }}')
                    continue
                conv, sig = {"ord": ("::dxrt::ord_c", "::core::cmp::Ordering"),
                             "partial_ord": ("::dxrt::pord_c", "::core::option::Option<::core::cmp::Ordering>"),
                             "eq": ("::dxrt::bool_c", "::core::primitive::bool"), "partial_eq": ("::dxrt::bool_c", "::core::primitive::bool")}[a]
                out.append(f' {{ fn __call(f: impl ::core::ops::Fn(&{ty}, &{ty}) -> {sig}, x: &{ty}, y: &{ty}) -> {sig} {{ f(x, y) }} let mut s = ::std::string::String::new(); for a in &d {{ for b in &d {{ s.push({conv}(__call({by}, a, b))); }} }} ::dxrt::ev!("tab", "f" => "{fid}", "src" => "by:{a}", "op" => "by", "m" => s); }}')
            out.append("}")
    return "\n".join(out)


def dummy_impls(spec, name="Ty"):
    """Supertraits that are needed but not derived get a hand-written impl (never observed)."""
    need = set()
    for t in spec["derived"]:
        need.update(M.SUPER.get(t, []))
    need -= set(spec["derived"])
    # dummy impls of a generic type are only claimed for `T: Ord + Hash`, which implies every bound the derived
    # companion impls can ask of T (so the supertrait obligations hold in both directions)
    g, ga = ("<T: ::dxrt::HasK>", "<T>") if spec["generic"] else ("", "")
    out = []
    for t in sorted(need):
        if t == "PartialEq":
            out.append(f"impl{g} ::core::cmp::PartialEq for {name}{ga} {{ fn eq(&self, _: &Self) -> ::core::primitive::bool {{ true }} }}")
        elif t == "Eq":
            out.append(f"impl{g} ::core::cmp::Eq for {name}{ga} {{}}")
        elif t == "PartialOrd":
            out.append(f"impl{g} ::core::cmp::PartialOrd for {name}{ga} {{ fn partial_cmp(&self, _: &Self) -> ::core::option::Option<::core::cmp::Ordering> {{ ::core::option::Option::None }} }}")
    return "\n".join(out)


def observe_code(spec, name="Ty", want_hash=False):
    inst = f"{name}<{V}>" if spec["generic"] else name
    vals = values(spec)
    out = [f"let vals: ::std::vec::Vec<{inst}> = vec![" + ", ".join(ctor(spec, vi, idx, name) for vi, idx in vals) + "];"]
    d = spec["derived"]
    if "PartialEq" in d:
        out.append('let mut s = ::std::string::String::new(); let mut ne_ok = true; for a in &vals { for b in &vals { let e = ::core::cmp::PartialEq::eq(a, b); ne_ok &= (a != b) == !e; s.push(::dxrt::bool_c(e)); } } ::dxrt::ev!("mat", "op" => "eq", "m" => s, "ne_ok" => ne_ok);')
    if "PartialOrd" in d:
        out.append('let mut s = ::std::string::String::new(); for a in &vals { for b in &vals { s.push(::dxrt::pord_c(::core::cmp::PartialOrd::partial_cmp(a, b))); } } ::dxrt::ev!("mat", "op" => "pcmp", "m" => s);')
    if "Ord" in d:
        out.append('let mut s = ::std::string::String::new(); for a in &vals { for b in &vals { s.push(::dxrt::ord_c(::core::cmp::Ord::cmp(a, b))); } } ::dxrt::ev!("mat", "op" => "cmp", "m" => s);')
    if want_hash and "Hash" in d:
        out.append('let mut l = ::std::vec::Vec::new(); for a in &vals { l.push(::dxrt::RecHasher::of(a)); } ::dxrt::ev!("feeds", "l" => l);')
    return "\n".join(out)


def render(spec, want_hash=False, name="Ty"):
    derive_attr = ", ".join(spec["derived"])
    return "\n".join([
        type_text(spec, name, derive_attr),
        dummy_impls(spec, name),
        "pub fn run() {",
        ref_tables_code(spec, want_hash),
        observe_code(spec, name, want_hash),
        "}",
    ])


def control(spec, name="Ty"):
    """The user-written pieces (field types, key/by expressions) without derive-ex: must compile."""
    return "\n".join([
        type_text(spec, name, None, field_attrs=False),
        "pub fn run() {",
        ref_tables_code(spec, True),
        "}",
    ])


# ---------------------------------------------------------------------------
# reference model: compose the documented rule from the primitive tables
# ---------------------------------------------------------------------------

def tables_from_events(events):
    t = {}
    for e in events:
        if e.get("k") == "tab":
            t[(e["f"], e["src"], e["op"])] = e.get("m") if "m" in e else e.get("l")
    return t


REV = {"L": "G", "G": "L", "E": "E", "N": "N"}


def field_result(trait, f, fid, tables, i, j):
    """Result of comparing domain values i, j of field f for `trait`: bool for PartialEq,
    'L/E/G/N' for PartialOrd, 'L/E/G' for Ord; None if the field is ignored."""
    kind, attr = M.source(trait, f["combo"])
    if kind == "ignored":
        return None
    n = len(f["dom"])
    at = i * n + j
    if kind == "field":
        src = "raw"
    elif kind == "key":
        src = f"key:{attr}"
    else:
        src = f"by:{attr}"
    if trait == "PartialEq":
        if kind == "by":
            c = tables[(fid, src, "by")][at]
            return c == "1" if attr in ("eq", "partial_eq") else c == "E"
        return tables[(fid, src, "eq")][at] == "1"
    if trait == "PartialOrd":
        if kind == "by":
            c = tables[(fid, src, "by")][at]
        else:
            c = tables[(fid, src, "pcmp")][at]
        return REV[c] if M.reversed_for("PartialOrd", f["combo"]) else c
    if trait == "Ord":
        if kind == "by":
            c = tables[(fid, src, "by")][at]
        else:
            c = tables[(fid, src, "cmp")][at]
        return REV[c] if M.reversed_for("Ord", f["combo"]) else c
    raise ValueError(trait)


def predict(spec, tables, trait):
    vals = values(spec)
    out = []
    for (va, ia) in vals:
        for (vb, ib) in vals:
            if va != vb:
                if trait == "PartialEq":
                    out.append("0")
                else:
                    out.append("L" if va < vb else "G")
                continue
            fs = spec["variants"][va]["fields"]
            if trait == "PartialEq":
                r = True
                for fi, f in enumerate(fs):
                    x = field_result(trait, f, f"{va}.{fi}", tables, ia[fi], ib[fi])
                    if x is None:
                        continue
                    if not x:
                        r = False
                        break
                out.append("1" if r else "0")
            else:
                r = "E"
                for fi, f in enumerate(fs):
                    x = field_result(trait, f, f"{va}.{fi}", tables, ia[fi], ib[fi])
                    if x is None:
                        continue
                    if x != "E":
                        r = x
                        break
                out.append(r)
    return "".join(out)


def hash_source(f):
    kind, attr = M.source("Hash", f["combo"])
    if kind == "ignored":
        return None
    if kind == "field":
        return "raw"
    return f"{kind}:{attr}"


def predict_feeds(spec, tables):
    out = []
    for (va, ia) in values(spec):
        parts = []
        for fi, f in enumerate(spec["variants"][va]["fields"]):
            s = hash_source(f)
            if s is None:
                continue
            parts += [x for x in tables[(f"{va}.{fi}", s, "hash")][ia[fi]].split(";") if x]
        out.append(parts)
    return out


def describe(spec):
    """Short feature description used in evidence samples and for distinct counting."""
    fs = []
    for v in spec["variants"]:
        fs.append(v["style"] + "[" + ";".join(
            f["ft"] + ":" + ",".join(f"{a}={o}" for a, o in zip(M.ATTRS, f["combo"]) if o != "-") for f in v["fields"]) + "]")
    return f"{spec['kind']}{'<T>' if spec['generic'] else ''} {spec['entry']} derive({'+'.join(spec['derived'])}) " + " | ".join(fs)
