#!/bin/sh
# tools/coverage.sh [check ...]   - which lines of derive-ex/src do the checks' workloads reach?
# Not a check (nothing in MANIFEST.json calls it): a measurement of reach.  Works on a scratch copy of /verif and a scratch worktree
# of /repo under /tmp (both removed afterwards): build A (dxmon, hooks on) and build B (the proc-macro rustc loads) are compiled with
# -Cinstrument-coverage, every listed check (default: all twenty, quick tier) runs once, the raw profiles of all dxmon and rustc
# processes are merged and reported with the llvm tools of the nightly toolchain.
set -e
BIN=$(ls -d /root/.rustup/toolchains/nightly-x86_64-unknown-linux-gnu/lib/rustlib/*/bin)
W=/tmp/dxcov_$$; mkdir -p $W/prof
rsync -a --exclude .cache --exclude .git /verif/ $W/verif/
git -C /repo worktree add --detach $W/repo HEAD -f >/dev/null 2>&1; cp /repo/Cargo.lock $W/repo/
python3 - "$W/verif/dx/common.py" <<'P'
import sys
p=sys.argv[1]; s=open(p).read()
s=s.replace('env["RUSTFLAGS"] = f"--cfg {GUARD}"','env["RUSTFLAGS"] = f"--cfg {GUARD} -Cinstrument-coverage"')
s=s.replace('"--message-format=json"])','"--message-format=json"], env=dict(ENV, RUSTFLAGS="-Cinstrument-coverage"))')
open(p,"w").write(s)
P
CHECKS="${*:-C01 C02 C03 C04 C05 C06 C07 C08 C09 C10 C11 C12 C13 C14 C15 C16 C17 C18 C19 C20}"
for c in $CHECKS; do
  (cd $W/verif && LLVM_PROFILE_FILE=$W/prof/dx-%p-%m.profraw DX_REPO=$W/repo DX_OUT=$W/out ./check $c 2>&1 | grep -E "^\[C" | cut -c1-100)
done
$BIN/llvm-profdata merge -sparse $W/prof/*.profraw -o $W/all.profdata
SO=$(ls $W/verif/.cache/libderive_ex-*.so); MON=$(ls $W/verif/.cache/target-mon-*/release/dxmon)
$BIN/llvm-cov report -instr-profile=$W/all.profdata $SO -object $MON --ignore-filename-regex='(registry|rustc|dxmon)'
echo "--- lines never reached:"
$BIN/llvm-cov show -instr-profile=$W/all.profdata $SO -object $MON --ignore-filename-regex='(registry|rustc|dxmon)' --show-line-counts-or-regions 2>/dev/null | grep -E "^(/|\s+[0-9]+\|\s+0\|)" | grep -B1 -E "^\s+[0-9]+\|\s+0\|" | cut -c1-160
git -C /repo worktree remove --force $W/repo; rm -rf $W
