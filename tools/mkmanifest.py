#!/usr/bin/env python3
"""Regenerates MANIFEST.json from the table below (keeps it valid at all times)."""
import json
import os
import subprocess

ROOT = os.path.dirname(os.path.dirname(os.path.abspath(__file__)))
TRUST = ("rustc 1.95.0 and its diagnostics, the std derives, the hand-written dxrt probe library, and the reference "
         "model's reading of doc/derive_ex.md")

# id -> (technique, level text, design ref, level note)
CHECKS = {
    "C20": ("compile pipeline as the monitored execution: programs of all generators + a crossing grammar compiled under #![deny(warnings)], rustc diagnostics mapped to cases, controls for user-written pieces",
            "Held on every program of the run that derive_ex accepted without an error of its own.",
            "DESIGN.md §4 C20", "rustc diagnostics (JSON) with expansion attribution are the observation channel; lints the std derive also draws are measured and allowed; " + TRUST),
    "C13": ("metamorphic execution: base programs vs consistently renamed / prelude-shadowed / no_std variants compiled with the real proc-macro; verdicts and event logs compared",
            "Held on every (base, transformed) pair of the run, including a systematic sweep of every dictionary name in every role over "
            "hand-picked rich base programs; the dictionary is harvested from the real expander's output at run time.",
            "DESIGN.md §4 C13", "errors located outside derive_ex's output are treated as harness breakage (not judged); " + TRUST),
    "C04": ("where-clause atoms of in-process expansions vs the reference resolution at scale; every textual mismatch (and a sample) confirmed by trait-solver bits of compiled programs",
            "Held on every configuration expanded in the run (every level alone with every form, level pairs, random assignments); "
            "a compiled sample agrees behaviourally (probe_impl! with one-marker-missing instantiations).",
            "DESIGN.md §4 C04", "priority table and stop rule read from the documentation; " + TRUST),
    "C03": ("trait-solver bits (probe_impl!) of derive_ex types vs twin types carrying the documented where-clause, evaluated by rustc at run time",
            "Held on every probe bit of every generated shape of the run; generated impls must type-check whenever the twin does.",
            "DESIGN.md §4 C03", "rustc's trait solver is the observation channel; the twin's where-clause is the reference model's reading of the doc; " + TRUST),
    "C17": ("compile pipeline as the monitored execution: rustc verdict (E0277 `..: Eq`) vs the reference rule, with controls; probe bits for generic cases",
            "Held on every generated case of the run, refuse and accept side.",
            "DESIGN.md §4 C17", TRUST),
    "C10": ("generated programs: every value formatted with 12 format specs by the derive_ex type and by a std-derived twin; strings compared offline",
            "Held on every (value, format spec) pair of the run; two-transparent-field refusals judged on the in-process expansion.",
            "DESIGN.md §4 C10", "the std derive(Debug) is the reference; " + TRUST),
    "C11": ("generated programs: Debug dump of default() vs hand-written constructor; conversion-recording field type; negative compile cases with controls",
            "Held on every generated type of the run; every expression kind of the property alone and in combination.",
            "DESIGN.md §4 C11", TRUST),
    "C12": ("differential execution against the std derives on a shape grammar (std-only control decides the domain)",
            "Held on every generated shape that the std derives accept: compiles, and all logged observations agree.",
            "DESIGN.md §4 C12", "the std derives are the reference; " + TRUST),
    "C01": ("generated programs compiled with the real proc-macro; logged ==/partial_cmp/cmp matrices checked offline against the documented rule",
            "Held on every matrix cell of every generated type of the run (counts in evidence); exploration of a large program space, not a proof.",
            "DESIGN.md §4 C01", "per-field primitive comparisons come from std / hand-written reference code in the same binary; " + TRUST),
    "C02": ("acceptance read from the real expander for the full matrix; accepted types compiled, run and checked against the order/equivalence/hash laws (model-free)",
            "Acceptance observed for all (combination, subset, placement) points; every accepted point (thorough) or all single-attribute "
            "points plus a sample (quick) is executed and all pairs/triples checked against the laws, plus BTreeMap/HashMap key-count monitors.",
            "DESIGN.md §4 C02", "laws only, no reference model; one shared key function; " + TRUST),
    "C06": ("recording Hasher in generated programs; feeds compared offline with reference feeds of the effective inputs",
            "Held on every value hashed in the run.", "DESIGN.md §4 C06", "reference feeds produced by hand-written code hashing the effective input expressions; " + TRUST),
    "C07": ("call-recording field types; clone/clone_from/drop traces of generated programs compared offline with field-level reference traces",
            "Held on every clone and every ordered clone_from pair observed, with a constructed==dropped conservation monitor.",
            "DESIGN.md §4 C07", TRUST),
    "C08": ("free term algebra + call traces in generated programs, complete over operator x form x struct shape",
            "Every operator trait, every owned/reference form and every struct kind/arity up to 4 is executed and compared with the field-wise expectation.",
            "DESIGN.md §4 C08", TRUST),
    "C09": ("user impls with logging bodies and clone-recording operands, complete over operator x base form x Rhs x requested set",
            "Every generated form of every configuration is executed; result, user-call count, clone multiset and borrowed operands compared.",
            "DESIGN.md §4 C09", TRUST),
    "C18": ("run-time address/TypeId/write-through observations on generated single-field structs + in-process expansion for refusals",
            "Complete over the listed shape table.", "DESIGN.md §4 C18", TRUST),
    "C05": ("exhaustive in-process expansion of the 3136-combination matrix judged by a documented accept/reject model, cross-checked with rustc diagnostics",
            "All 94080 (combination, trait, placement, entry) points plus every supertrait-closed subset of derived traits "
            "and all misplaced arguments are expanded by the real expander and compared with the model; a sample is compiled "
            "with the real proc-macro and rustc's error list compared. Exhaustive over the stated finite matrix, exploration beyond it.",
            "DESIGN.md §4 C05", "accept/reject model written from the documentation (don't-care classes listed in the evidence); " + TRUST),
    "C14": ("in-process expansion of generated items; emitted item compared token-for-token with the expected re-emission",
            "Held on every generated item of the run: first emitted item equals the input minus derive_ex attributes and "
            "documented helper attributes; on erroring inputs the item survives next to a compile_error!.",
            "DESIGN.md §4 C14", "ownership table of helper attributes read from the doc table; " + TRUST),
    "C15": ("metamorphic relations over in-process expansions (entry point, list splitting, supersets, permutations)",
            "Held on every relation instance of the run (token equality of generated impls).",
            "DESIGN.md §4 C15", "relations only; no model of the generated code; " + TRUST),
    "C19": ("differential in-process expansion with and without dump; dump text re-lexed and compared with the generated items",
            "Held on every (item, dump placement) pair of the run.",
            "DESIGN.md §4 C19", TRUST),
    "C16": ("in-process mutation fuzzing of the real expander under panic/re-parse/run-twice monitors",
            "Held on every mutant executed (count in evidence): no panic, output parses (rustc is the final judge of "
            "well-formedness), every compile_error! has a message, two runs and two processes agree. Exploration only: "
            "termination is observed, not proved.",
            "DESIGN.md §4 C16", "syn as pre-filter, rustc parser as final oracle for well-formed items; " + TRUST),
}
ALL = [f"C{i:02d}" for i in range(1, 21)]
NOT_YET = {p: "check not built yet in this revision of /verif (planned, see DESIGN.md §4)" for p in ALL if p not in CHECKS}
assert not NOT_YET


def main():
    hooks_commits = []
    try:
        out = subprocess.run(["git", "-C", "/repo", "log", "--format=%H %s"], capture_output=True, text=True).stdout
        hooks_commits = [l.split()[0] for l in out.splitlines() if l.split(" ", 1)[1].startswith("verif hooks")]
    except Exception:
        pass
    m = {
        "version": 1,
        "setup_cmd": "./setup.sh",
        "hooks": {
            "guard": "frozenlib_derive_ex_verif",
            "enable": "RUSTFLAGS='--cfg frozenlib_derive_ex_verif' (build A: derive-ex/src/lib.rs linked as an ordinary "
                      "library by the generated crate under .cache/ws-*; build B is the guard-off proc-macro of the same tree)",
            "baseline_off_cmd": "cd /repo && cargo test --workspace --no-fail-fast --offline",
            "source_commits": hooks_commits,
            "add_only": True,
        },
        "engines": [
            {"name": "dxmon", "path": "dxmon/src/main.rs", "serves_properties": ALL,
             "kind_free_text": "Rust binary linking the working tree's expander (hooks on): monitored in-process expansion, seed harvesting, mutation fuzz loop, minimiser"},
            {"name": "dx", "path": "dx/", "serves_properties": ALL,
             "kind_free_text": "Python orchestrator: generators, reference models, rustc batch pipeline with diagnostic mapping, offline checkers over event logs, evidence/replay writers"},
            {"name": "dxrt", "path": "rt/dxrt.rs", "serves_properties": ALL,
             "kind_free_text": "probe types / recorders linked into generated programs (call traces, recording hasher, term algebra, trait-solver probes)"},
        ],
        "checks": [],
        "notes": "All checks are runtime monitors over executions of the real expander / the real generated code; see DESIGN.md. "
                 "Known findings (genuine defects recorded, not repaired) and fixed ones are listed in known_findings.json "
                 "(status `known` entries are matched by exact signature and printed as KNOWN-FINDING lines; `fixed` entries suppress nothing); "
                 "seeded changes and which checks catch them: seeded/README.md, seeded/RESULTS.json.",
        "not_applicable": [{"property_id": p, "reason": r} for p, r in sorted(NOT_YET.items())],
    }
    for pid in sorted(CHECKS):
        tech, text, ref, note = CHECKS[pid]
        m["checks"].append({
            "property_id": pid,
            "quick_cmd": f"./check {pid} --tier quick",
            "thorough_cmd": f"./check {pid} --tier thorough",
            "evidence_file": f"evidence/{pid}.json",
            "replay_cmd_template": f"./check {pid} --replay {{path}}",
            "engine": "dx",
            "level_claimed": {"category": "exploration", "text": text, "design_ref": ref},
            "level_note": note,
            "technique": tech,
        })
    with open(os.path.join(ROOT, "MANIFEST.json"), "w") as f:
        json.dump(m, f, indent=1)
    print("MANIFEST.json:", len(m["checks"]), "checks,", len(m["not_applicable"]), "not_applicable")


if __name__ == "__main__":
    main()
