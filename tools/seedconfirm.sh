#!/bin/sh
# tools/seedconfirm.sh <candidate-dir> [...]   — independent confirmation of seeded changes before they are kept:
#   (1) patch applies to /repo HEAD and the crate builds, (2) the full test suite passes with it,
#   (3) the demonstration fails with the patch and (4) passes without it.
# Works in a scratch worktree outside /repo and /verif and removes it afterwards.  Prints one verdict line per candidate.
WT=/tmp/seedconfirm_$$
git -C /repo worktree add --detach "$WT" HEAD -f >/dev/null 2>&1 || exit 2
cp /repo/Cargo.lock "$WT/" 2>/dev/null
export CARGO_NET_OFFLINE=true
for d in "$@"; do
  name=$(basename "$(dirname "$d")")_$(basename "$d")
  git -C "$WT" checkout -q -- . ; git -C "$WT" clean -qfd derive-ex-tests derive-ex/src
  demo="$WT/derive-ex-tests/tests/seed_demo.rs"
  cp "$d/demo.rs" "$demo"
  base=$(cd "$WT" && cargo test --offline -p derive-ex-tests --test seed_demo 2>&1 | grep -E "^test result|error(\[|:)" | head -3 | tr '\n' ' ')
  if ! git -C "$WT" apply "$d/patch.diff" 2>/dev/null; then echo "$name: PATCH-DOES-NOT-APPLY"; continue; fi
  with=$(cd "$WT" && cargo test --offline -p derive-ex-tests --test seed_demo 2>&1 | grep -E "^test result|error(\[|:)" | head -3 | tr '\n' ' ')
  rm -f "$demo"
  suite=$(cd "$WT" && cargo test --workspace --no-fail-fast --offline 2>&1 | grep -E "^test result|^error" | awk '/test result/{p+=$4; f+=$6} /^error/{e+=1} END {print p" passed "f" failed "e+0" errors"}')
  echo "$name: suite_with_patch=[$suite] demo_without_patch=[$base] demo_with_patch=[$with]"
done
git -C /repo worktree remove --force "$WT"
