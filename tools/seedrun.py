#!/usr/bin/env python3
"""Runs checks against the seeded changes kept under /verif/seeded/<id>/ (patch.diff, demo, meta.json).

  tools/seedrun.py [--all-checks] [--scratch] [--tier quick|thorough] [name ...]

With --scratch the patch is applied to a scratch worktree of /repo HEAD under /tmp (removed afterwards, with the build
output the checks created for it) and the checks are pointed at it through DX_REPO, so /repo itself is left alone.

For each seeded change: `git -C /repo apply patch.diff`, run the check of the targeted property (or all checks),
record which checks report a VIOLATION, then `git -C /repo checkout -- .`.  Never commits anything in /repo.
Results are written to seeded/RESULTS.json (and printed)."""
import json
import os
import subprocess
import sys

ROOT = os.path.dirname(os.path.dirname(os.path.abspath(__file__)))
REPO = "/repo"
ALL = [f"C{i:02d}" for i in range(1, 21)]


def sh(cmd, **kw):
    return subprocess.run(cmd, capture_output=True, text=True, **kw)


def write_readme(sdir, results):
    lines = ["# Seeded changes and the checks that catch them", "",
             "Every change below keeps the crate compiling and the existing suite green (confirmed with tools/seedconfirm.sh; see each",
             "meta.json). `caught by` lists every check that exits 1 with a VIOLATION when the patch is applied (quick tier unless noted;",
             "only checks that were run against the change are listed - see RESULTS.json for the runs).", "",
             "| seeded change | breaks | what it does | needs | caught by |", "|---|---|---|---|---|"]
    for n in sorted(d for d in os.listdir(sdir) if os.path.isfile(os.path.join(sdir, d, "meta.json"))):
        try:
            meta = json.load(open(os.path.join(sdir, n, "meta.json")))
        except Exception:
            continue
        r = results.get(n, {})
        cb = ", ".join(r.get("caught_by", [])) or "-"
        if meta.get("superseded"):
            cb += " (on its base commit; superseded by an upstream fix)"
        esc = lambda x: str(x).replace("|", "\\|").replace("\n", " ")[:260]
        lines.append(f"| {n} | {meta.get('property')} | {esc(meta.get('what'))} | {esc(meta.get('needs'))} | {cb} |")
    open(os.path.join(sdir, "README.md"), "w").write("\n".join(lines) + "\n")


def main():
    args = sys.argv[1:]
    all_checks = "--all-checks" in args
    scratch = "--scratch" in args
    tier = "quick"
    if "--tier" in args:
        tier = args[args.index("--tier") + 1]
    names = [a for a in args if not a.startswith("--") and a not in ("quick", "thorough") and not a.endswith(".json")]
    sdir = os.path.join(ROOT, "seeded")
    names = [x for x in names if "/" not in x]
    names = names or sorted(d for d in os.listdir(sdir) if os.path.isfile(os.path.join(sdir, d, "meta.json")))
    shard = None
    if "--shard" in args:
        # --shard i/n: every n-th seeded change, in one scratch worktree that is kept (with its build cache) for the whole shard
        i, n = map(int, args[args.index("--shard") + 1].split("/"))
        names = [x for x in names if "/" not in x][i::n]
        shard = f"/tmp/seedrun_s{i}"
        scratch = True
    if sh(["git", "-C", REPO, "status", "--porcelain", "--untracked-files=no"]).stdout.strip():
        print("refusing: /repo has uncommitted changes")
        return 2
    res_path = os.path.join(sdir, "RESULTS.json")
    if "--results" in args:
        res_path = args[args.index("--results") + 1]
        names = [n for n in names if n != res_path]
    try:
        results = json.load(open(res_path))
    except Exception:
        results = {}
    for n in names:
        d = os.path.join(sdir, n)
        meta = json.load(open(os.path.join(d, "meta.json")))
        target = meta["property"]
        if meta.get("superseded"):
            print(n, "superseded (kept for the record, not applied):", meta["superseded"][:80])
            results.setdefault(n, {"property": target})["superseded"] = True
            continue
        checks = ALL if all_checks else [target]
        repo = REPO
        if scratch:
            repo = shard or f"/tmp/seedrun_{os.getpid()}"
            if not (shard and os.path.isdir(repo)):
                sh(["git", "-C", REPO, "worktree", "add", "--detach", repo, "HEAD", "-f"])
                sh(["cp", os.path.join(REPO, "Cargo.lock"), repo])
            else:
                sh(["git", "-C", repo, "checkout", "--", "."])
        r = sh(["git", "-C", repo, "apply", os.path.join(d, "patch.diff")])
        if r.returncode != 0:
            if scratch and not shard:
                sh(["git", "-C", REPO, "worktree", "remove", "--force", repo])
            print(n, "patch does not apply:", r.stderr[:200])
            results.setdefault(n, {})["error"] = "patch does not apply"
            continue
        fired = {}
        try:
            for c in checks:
                env = dict(os.environ, VERIF_SEED=os.environ.get("VERIF_SEED", "0"))
                env["DX_OUT"] = f"/tmp/seedrun_out_{os.getpid()}"    # evidence / replays of mutant runs never land in /verif
                if scratch:
                    env["DX_REPO"] = repo
                p = sh([os.path.join(ROOT, "check"), c, "--tier", tier], cwd=ROOT, env=env)
                sigs = [l.strip()[len("signature: "):] for l in p.stdout.splitlines() if l.strip().startswith("signature: ")]
                fired[c] = {"exit": p.returncode, "violations": sum(1 for l in p.stdout.splitlines() if l.startswith("VIOLATION")),
                            "signatures": sigs[:5]}
                print(f"{n}: {c} exit={p.returncode} violations={fired[c]['violations']} {sigs[:2]}", flush=True)
        finally:
            if scratch and shard:
                sh(["git", "-C", repo, "checkout", "--", "."])
            elif scratch:
                import hashlib
                tag = hashlib.sha1(repo.encode()).hexdigest()[:8]
                sh(["git", "-C", REPO, "worktree", "remove", "--force", repo])
                subprocess.run(f"rm -rf {ROOT}/.cache/*-{tag}* {ROOT}/.cache/*{tag}.so", shell=True)
            else:
                sh(["git", "-C", REPO, "checkout", "--", "."])
                pass
            subprocess.run(["rm", "-rf", f"/tmp/seedrun_out_{os.getpid()}"])
        e = results.setdefault(n, {"property": target})
        e.setdefault("runs", {}).update({f"{c}:{tier}": v for c, v in fired.items()})
        e["caught_by"] = sorted({k.split(":")[0] for k, v in e["runs"].items() if v["exit"] == 1})
        e["caught_by_target"] = target in e["caught_by"]
        json.dump(results, open(res_path, "w"), indent=1)
    if shard:
        import hashlib
        tag = hashlib.sha1(shard.encode()).hexdigest()[:8]
        sh(["git", "-C", REPO, "worktree", "remove", "--force", shard])
        subprocess.run(f"rm -rf {ROOT}/.cache/*-{tag}* {ROOT}/.cache/*{tag}.so", shell=True)
    if not scratch:
        # rebuild against the clean tree so that caches are warm and nothing from a mutant lingers
        sh([os.path.join(ROOT, "setup.sh")], cwd=ROOT)
    if res_path == os.path.join(sdir, "RESULTS.json"):
        write_readme(sdir, results)
    miss = [n for n in names if not results.get(n, {}).get("caught_by_target") and not results.get(n, {}).get("superseded")]
    print("not caught by the target check:", miss)
    return 0


if __name__ == "__main__":
    sys.exit(main())
