//! dxmon — in-process monitor bridge for frozenlib/derive-ex (build A, hooks ON).
//!
//! The repository's `derive-ex/src/lib.rs` is linked as an ordinary library
//! (`--cfg frozenlib_derive_ex_verif`), so every call below executes the real
//! expander code of the current working tree.
//!
//! Modes
//!   dxmon expand [threads]            JSONL requests on stdin -> JSONL observations on stdout
//!   dxmon seeds <repo>                harvest seed items from tests/ and doc/ -> JSONL on stdout
//!   dxmon fuzz <seeds.jsonl> <seed> <count> <threads> [extra.jsonl]
//!                                     C16 monitor loop, summary JSON on stdout
//!
//! The monitors here only *observe* (panic capture, re-parse, run-twice
//! equality, structural description of the output). Every verdict about a
//! property other than C16 is made by the Python checkers from these
//! observations.

use proc_macro2::{Delimiter, Group, Ident, Literal, Punct, Spacing, Span, TokenStream, TokenTree};
use quote::ToTokens;
use serde_json::{json, Value};
use std::collections::{BTreeMap, HashSet};
use std::io::{BufRead, Read, Write};
use std::panic::{catch_unwind, AssertUnwindSafe};
use std::str::FromStr;
use std::sync::atomic::{AtomicU64, AtomicUsize, Ordering};
use std::sync::{Arc, Mutex};
use std::time::{Duration, Instant};

use derive_ex::verif_hooks::{expand_attr, expand_derive};

fn none_groups(ts: TokenStream) -> TokenStream {
    use proc_macro2::{Delimiter, Group, TokenTree};
    let mut out: Vec<TokenTree> = Vec::new();
    let mut it = ts.into_iter().peekable();
    while let Some(tt) = it.next() {
        match tt {
            TokenTree::Ident(ref id) if id == "__dx_none" => {
                if let Some(TokenTree::Group(g)) = it.peek() {
                    if g.delimiter() == Delimiter::Parenthesis {
                        let inner = none_groups(g.stream());
                        it.next();
                        out.push(TokenTree::Group(Group::new(Delimiter::None, inner)));
                        continue;
                    }
                }
                out.push(tt);
            }
            TokenTree::Group(g) => {
                let mut n = Group::new(g.delimiter(), none_groups(g.stream()));
                n.set_span(g.span());
                out.push(TokenTree::Group(n));
            }
            t => out.push(t),
        }
    }
    out.into_iter().collect()
}

fn main() {
    // Panics of the expander are events, not crashes: silence the default hook
    // and remember the message per thread.
    std::panic::set_hook(Box::new(|info| {
        let msg = if let Some(s) = info.payload().downcast_ref::<&str>() {
            s.to_string()
        } else if let Some(s) = info.payload().downcast_ref::<String>() {
            s.clone()
        } else {
            "<non-string panic>".to_string()
        };
        let loc = info
            .location()
            .map(|l| format!("{}:{}", l.file(), l.line()))
            .unwrap_or_default();
        LAST_PANIC.with(|p| *p.borrow_mut() = format!("{msg} @ {loc}"));
    }));
    let args: Vec<String> = std::env::args().collect();
    match args.get(1).map(|s| s.as_str()) {
        Some("expand") => {
            let threads = args.get(2).and_then(|s| s.parse().ok()).unwrap_or(16);
            mode_expand(threads)
        }
        Some("seeds") => mode_seeds(&args[2]),
        Some("fuzz") => mode_fuzz(&args[2..]),
        Some("selftest") => mode_selftest(),
        Some("minimize") => mode_minimize(),
        _ => {
            eprintln!("usage: dxmon expand|seeds|fuzz ...");
            std::process::exit(64);
        }
    }
}

thread_local! {
    static LAST_PANIC: std::cell::RefCell<String> = const { std::cell::RefCell::new(String::new()) };
}

// ---------------------------------------------------------------------------
// one monitored expansion
// ---------------------------------------------------------------------------

#[derive(Clone, Copy, PartialEq, Eq, Debug)]
enum Entry {
    Attr,
    Derive,
}

enum Outcome {
    Ok(TokenStream),
    Panic(String),
}

fn run_once(entry: Entry, attr: &TokenStream, item: &TokenStream) -> Outcome {
    let r = catch_unwind(AssertUnwindSafe(|| match entry {
        Entry::Attr => expand_attr(attr.clone(), item.clone()),
        Entry::Derive => expand_derive(item.clone()),
    }));
    match r {
        Ok(ts) => Outcome::Ok(ts),
        Err(_) => Outcome::Panic(LAST_PANIC.with(|p| p.borrow().clone())),
    }
}

fn norm(s: &str) -> Option<String> {
    TokenStream::from_str(s).ok().map(|t| t.to_string())
}

fn path_last(p: &syn::Path) -> (String, String) {
    match p.segments.last() {
        Some(s) => (s.ident.to_string(), s.arguments.to_token_stream().to_string()),
        None => (String::new(), String::new()),
    }
}

fn compile_error_msg(m: &syn::ItemMacro) -> Option<Option<String>> {
    // Some(Some(msg)) : compile_error! with a string literal; Some(None): compile_error! with something else
    let (name, _) = path_last(&m.mac.path);
    if name != "compile_error" {
        return None;
    }
    match syn::parse2::<syn::LitStr>(m.mac.tokens.clone()) {
        Ok(l) => Some(Some(l.value())),
        Err(_) => Some(None),
    }
}

fn describe_where(g: &syn::Generics) -> (Vec<Value>, Vec<String>) {
    let mut atoms = Vec::new();
    let mut raw = Vec::new();
    if let Some(w) = &g.where_clause {
        for p in &w.predicates {
            raw.push(p.to_token_stream().to_string());
            match p {
                syn::WherePredicate::Type(pt) => {
                    let lt = pt
                        .lifetimes
                        .as_ref()
                        .map(|l| l.to_token_stream().to_string())
                        .unwrap_or_default();
                    let ty = pt.bounded_ty.to_token_stream().to_string();
                    if pt.bounds.is_empty() {
                        atoms.push(json!({"for": lt, "ty": ty, "bound": "", "short": ""}));
                    }
                    for b in &pt.bounds {
                        let full = b.to_token_stream().to_string();
                        let short = match b {
                            syn::TypeParamBound::Trait(tb) => {
                                let (n, a) = path_last(&tb.path);
                                let q = match tb.modifier {
                                    syn::TraitBoundModifier::Maybe(_) => "?",
                                    _ => "",
                                };
                                let l = tb
                                    .lifetimes
                                    .as_ref()
                                    .map(|l| l.to_token_stream().to_string() + " ")
                                    .unwrap_or_default();
                                if a.is_empty() {
                                    format!("{l}{q}{n}")
                                } else {
                                    format!("{l}{q}{n} {a}")
                                }
                            }
                            other => other.to_token_stream().to_string(),
                        };
                        atoms.push(json!({"for": lt, "ty": ty, "bound": full, "short": short}));
                    }
                }
                syn::WherePredicate::Lifetime(pl) => {
                    for b in &pl.bounds {
                        atoms.push(json!({"for": "", "ty": pl.lifetime.to_string(),
                            "bound": b.to_string(), "short": b.to_string()}));
                    }
                }
                _ => {}
            }
        }
    }
    (atoms, raw)
}

fn describe_item(it: &syn::Item) -> Value {
    let text = it.to_token_stream().to_string();
    match it {
        syn::Item::Impl(i) => {
            let (tname, targs, tpath, neg) = match &i.trait_ {
                Some((bang, p, _)) => {
                    let (n, a) = path_last(p);
                    (n, a, p.to_token_stream().to_string(), bang.is_some())
                }
                None => (String::new(), String::new(), String::new(), false),
            };
            let (atoms, raw) = describe_where(&i.generics);
            let params: Vec<String> = i
                .generics
                .params
                .iter()
                .map(|p| p.to_token_stream().to_string())
                .collect();
            let attrs: Vec<String> = i
                .attrs
                .iter()
                .map(|a| a.to_token_stream().to_string())
                .collect();
            let mut members = Vec::new();
            for m in &i.items {
                match m {
                    syn::ImplItem::Fn(f) => members.push(json!({"kind":"fn","name":f.sig.ident.to_string(),
                        "sig": f.sig.to_token_stream().to_string(),
                        "body": f.block.to_token_stream().to_string()})),
                    syn::ImplItem::Type(t) => members.push(json!({"kind":"type","name":t.ident.to_string(),
                        "ty": t.ty.to_token_stream().to_string()})),
                    other => members.push(json!({"kind":"other","text":other.to_token_stream().to_string()})),
                }
            }
            json!({"kind":"impl","trait":tname,"trait_args":targs,"trait_path":tpath,"negative":neg,
                   "self_ty": i.self_ty.to_token_stream().to_string(),
                   "params": params, "where_atoms": atoms, "where_raw": raw, "attrs": attrs,
                   "members": members, "text": text})
        }
        syn::Item::Macro(m) => match compile_error_msg(m) {
            Some(Some(msg)) => {
                let dump = msg
                    .strip_prefix("dump:\n")
                    .map(|rest| match TokenStream::from_str(rest) {
                        Ok(t) => {
                            // also split the dumped code into items so a checker can compare per item
                            let items: Option<Vec<String>> = syn::parse2::<syn::File>(t.clone())
                                .ok()
                                .map(|f| f.items.iter().map(|i| i.to_token_stream().to_string()).collect());
                            json!({"lexes": true, "norm": t.to_string(), "items": items})
                        }
                        Err(_) => json!({"lexes": false}),
                    });
                json!({"kind":"compile_error","msg":msg,"dump":dump,"text":text})
            }
            Some(None) => json!({"kind":"compile_error","msg":Value::Null,"text":text}),
            None => json!({"kind":"macro","text":text}),
        },
        syn::Item::Struct(s) => json!({"kind":"struct","name":s.ident.to_string(),"text":text}),
        syn::Item::Enum(s) => json!({"kind":"enum","name":s.ident.to_string(),"text":text}),
        syn::Item::Union(s) => json!({"kind":"union","name":s.ident.to_string(),"text":text}),
        syn::Item::Const(c) => json!({"kind":"const","name":c.ident.to_string(),"text":text,
                                      "expr": c.expr.to_token_stream().to_string()}),
        _ => json!({"kind":"other","text":text}),
    }
}

/// All identifiers (and lifetimes as `'x`) that occur in a token stream.
fn collect_idents(ts: TokenStream, out: &mut HashSet<String>) {
    let mut prev_tick = false;
    for t in ts {
        match t {
            TokenTree::Group(g) => {
                collect_idents(g.stream(), out);
                prev_tick = false;
            }
            TokenTree::Ident(i) => {
                if prev_tick {
                    out.insert(format!("'{i}"));
                } else {
                    out.insert(i.to_string());
                }
                prev_tick = false;
            }
            TokenTree::Punct(p) => {
                prev_tick = p.as_char() == '\'' && p.spacing() == Spacing::Joint;
            }
            TokenTree::Literal(_) => prev_tick = false,
        }
    }
}

/// Remove, on the item, its variants and their fields, every attribute whose path is one of `names`.
fn strip_item_attrs(it: &mut syn::Item, names: &[String]) {
    let keep = |a: &syn::Attribute| -> bool {
        match a.path().get_ident() {
            Some(i) => !names.iter().any(|n| i == n),
            None => true,
        }
    };
    fn fields_mut(f: &mut syn::Fields) -> Vec<&mut syn::Field> {
        match f {
            syn::Fields::Named(n) => n.named.iter_mut().collect(),
            syn::Fields::Unnamed(n) => n.unnamed.iter_mut().collect(),
            syn::Fields::Unit => Vec::new(),
        }
    }
    match it {
        syn::Item::Struct(s) => {
            s.attrs.retain(keep);
            for f in fields_mut(&mut s.fields) {
                f.attrs.retain(keep);
            }
        }
        syn::Item::Enum(e) => {
            e.attrs.retain(keep);
            for v in e.variants.iter_mut() {
                v.attrs.retain(keep);
                for f in fields_mut(&mut v.fields) {
                    f.attrs.retain(keep);
                }
            }
        }
        syn::Item::Impl(i) => i.attrs.retain(keep),
        _ => {}
    }
}

fn item_cmp_text(src: TokenStream, strip: &[String]) -> Option<String> {
    let mut it = syn::parse2::<syn::Item>(src).ok()?;
    if !strip.is_empty() {
        strip_item_attrs(&mut it, strip);
    }
    Some(it.to_token_stream().to_string())
}

fn observe(req: &Value) -> Value {
    let id = req.get("id").cloned().unwrap_or(Value::Null);
    let entry = match req.get("entry").and_then(|v| v.as_str()) {
        Some("derive") => Entry::Derive,
        _ => Entry::Attr,
    };
    let attr_s = req.get("attr").and_then(|v| v.as_str()).unwrap_or("");
    let item_s = req.get("item").and_then(|v| v.as_str()).unwrap_or("");
    let mut resp = json!({"id": id});
    // extra strings to push through the same lexer
    if let Some(arr) = req.get("norm").and_then(|v| v.as_array()) {
        let v: Vec<Value> = arr
            .iter()
            .map(|s| match s.as_str().and_then(norm) {
                Some(n) => Value::String(n),
                None => Value::Null,
            })
            .collect();
        resp["norm"] = Value::Array(v);
    }
    let (attr, item) = match (TokenStream::from_str(attr_s), TokenStream::from_str(item_s)) {
        (Ok(a), Ok(i)) => (a, i),
        _ => {
            resp["status"] = json!("lexerr");
            return resp;
        }
    };
    // `none_groups`: `__dx_none(..)` in the request text stands for a group without delimiters - what a macro_rules!
    // `$e:expr` / `$t:ty` fragment looks like when it reaches a proc macro (such a group cannot be written as text)
    let (attr, item) = if req.get("none_groups").and_then(|v| v.as_bool()).unwrap_or(false) {
        (none_groups(attr), none_groups(item))
    } else {
        (attr, item)
    };
    resp["item_is_item"] = json!(syn::parse2::<syn::Item>(item.clone()).is_ok());
    resp["item_is_derive_input"] = json!(syn::parse2::<syn::DeriveInput>(item.clone()).is_ok());
    let t0 = Instant::now();
    let out = match run_once(entry, &attr, &item) {
        Outcome::Ok(t) => t,
        Outcome::Panic(m) => {
            resp["status"] = json!("panic");
            resp["panic_msg"] = json!(m);
            return resp;
        }
    };
    resp["micros"] = json!(t0.elapsed().as_micros() as u64);
    let out_s = out.to_string();
    // run-twice determinism monitor (fresh RandomState for any HashMap inside)
    let det = match run_once(entry, &attr, &item) {
        Outcome::Ok(t2) => t2.to_string() == out_s,
        Outcome::Panic(_) => false,
    };
    resp["status"] = json!("ok");
    resp["det"] = json!(det);
    if req.get("want_out").and_then(|v| v.as_bool()).unwrap_or(false) {
        resp["out"] = json!(out_s);
    }
    if req.get("want_idents").and_then(|v| v.as_bool()).unwrap_or(false) {
        let mut a = HashSet::new();
        let mut b = HashSet::new();
        collect_idents(out.clone(), &mut a);
        collect_idents(attr.clone(), &mut b);
        collect_idents(item.clone(), &mut b);
        let mut v: Vec<String> = a.difference(&b).cloned().collect();
        v.sort();
        resp["new_idents"] = json!(v);
    }
    let strip: Vec<String> = req
        .get("strip")
        .and_then(|v| v.as_array())
        .map(|a| a.iter().filter_map(|x| x.as_str().map(|s| s.to_string())).collect())
        .unwrap_or_default();
    if let Some(e) = req.get("expect_item").and_then(|v| v.as_str()) {
        resp["expect_cmp"] = match TokenStream::from_str(e).ok().and_then(|t| item_cmp_text(t, &strip)) {
            Some(s) => json!(s),
            None => Value::Null,
        };
    }
    match syn::parse2::<syn::File>(out) {
        Ok(f) => {
            resp["parses"] = json!(true);
            if req.get("expect_item").is_some() {
                resp["first_cmp"] = match f.items.first() {
                    Some(it) => {
                        let mut it = it.clone();
                        if !strip.is_empty() {
                            strip_item_attrs(&mut it, &strip);
                        }
                        json!(it.to_token_stream().to_string())
                    }
                    None => Value::Null,
                };
            }
            let items: Vec<Value> = f.items.iter().map(describe_item).collect();
            resp["items"] = Value::Array(items);
        }
        Err(e) => {
            resp["parses"] = json!(false);
            resp["parse_err"] = json!(e.to_string());
            resp["out"] = json!(out_s);
        }
    }
    resp
}

fn mode_expand(threads: usize) {
    let stdin = std::io::stdin();
    let lines: Vec<String> = stdin.lock().lines().map(|l| l.unwrap()).collect();
    let n = lines.len();
    let lines = Arc::new(lines);
    let next = Arc::new(AtomicUsize::new(0));
    let results: Arc<Mutex<Vec<Option<String>>>> = Arc::new(Mutex::new(vec![None; n]));
    let mut hs = Vec::new();
    for _ in 0..threads.max(1) {
        let lines = lines.clone();
        let next = next.clone();
        let results = results.clone();
        hs.push(
            std::thread::Builder::new()
                .stack_size(64 << 20)
                .spawn(move || {
                    let mut local: Vec<(usize, String)> = Vec::new();
                    loop {
                        let i = next.fetch_add(1, Ordering::Relaxed);
                        if i >= lines.len() {
                            break;
                        }
                        let l = &lines[i];
                        if l.trim().is_empty() {
                            continue;
                        }
                        let resp = match serde_json::from_str::<Value>(l) {
                            Ok(req) => observe(&req),
                            Err(e) => json!({"status":"badreq","err":e.to_string()}),
                        };
                        local.push((i, resp.to_string()));
                        if local.len() >= 256 {
                            let mut r = results.lock().unwrap();
                            for (i, s) in local.drain(..) {
                                r[i] = Some(s);
                            }
                        }
                    }
                    let mut r = results.lock().unwrap();
                    for (i, s) in local.drain(..) {
                        r[i] = Some(s);
                    }
                })
                .unwrap(),
        );
    }
    for h in hs {
        h.join().unwrap();
    }
    let out = std::io::stdout();
    let mut out = std::io::BufWriter::new(out.lock());
    for s in results.lock().unwrap().iter().flatten() {
        out.write_all(s.as_bytes()).unwrap();
        out.write_all(b"\n").unwrap();
    }
}

// ---------------------------------------------------------------------------
// seed harvesting
// ---------------------------------------------------------------------------

fn attr_is(a: &syn::Attribute, name: &str) -> bool {
    a.path().is_ident(name)
}
fn attr_is_derive_ex_path(a: &syn::Attribute) -> bool {
    let p = a.path();
    p.segments.last().map(|s| s.ident == "derive_ex").unwrap_or(false)
}
fn derive_has_ex(a: &syn::Attribute) -> bool {
    if !attr_is(a, "derive") {
        return false;
    }
    let mut found = false;
    let _ = a.parse_nested_meta(|m| {
        if m.path.segments.last().map(|s| s.ident == "Ex").unwrap_or(false) {
            found = true;
        }
        Ok(())
    });
    found
}

fn item_attrs_mut(it: &mut syn::Item) -> Option<&mut Vec<syn::Attribute>> {
    match it {
        syn::Item::Struct(s) => Some(&mut s.attrs),
        syn::Item::Enum(s) => Some(&mut s.attrs),
        syn::Item::Impl(s) => Some(&mut s.attrs),
        syn::Item::Union(s) => Some(&mut s.attrs),
        _ => None,
    }
}

struct SeedVisitor {
    out: Vec<Value>,
    origin: String,
}
impl SeedVisitor {
    fn consider(&mut self, it: &syn::Item) {
        let mut it = it.clone();
        let Some(attrs) = item_attrs_mut(&mut it) else { return };
        if let Some(pos) = attrs.iter().position(derive_has_ex) {
            // derive entry: the derive input is the item without the #[derive(..Ex..)] attribute
            // (other derives in the same list are dropped with it; irrelevant for the expander)
            attrs.remove(pos);
            self.out.push(json!({"entry":"derive","attr":"","item":it.to_token_stream().to_string(),"origin":self.origin}));
            return;
        }
        if let Some(pos) = attrs.iter().position(attr_is_derive_ex_path) {
            let a = attrs.remove(pos);
            let args = match &a.meta {
                syn::Meta::List(l) => l.tokens.to_string(),
                _ => String::new(),
            };
            // rustc hands an attribute macro the item *without* the attributes that precede it
            // having been expanded; keep remaining attributes as they are.
            self.out.push(json!({"entry":"attr","attr":args,"item":it.to_token_stream().to_string(),"origin":self.origin}));
        }
    }
}
impl<'ast> syn::visit::Visit<'ast> for SeedVisitor {
    fn visit_item(&mut self, i: &'ast syn::Item) {
        self.consider(i);
        syn::visit::visit_item(self, i);
    }
}

fn harvest_file(src: &str, origin: &str, out: &mut Vec<Value>) {
    if let Ok(f) = syn::parse_file(src) {
        let mut v = SeedVisitor { out: Vec::new(), origin: origin.to_string() };
        syn::visit::Visit::visit_file(&mut v, &f);
        out.extend(v.out);
    }
}

fn mode_seeds(repo: &str) {
    let mut out = Vec::new();
    let tests = format!("{repo}/derive-ex-tests/tests");
    let mut files: Vec<std::path::PathBuf> = Vec::new();
    fn walk(d: &std::path::Path, files: &mut Vec<std::path::PathBuf>) {
        if let Ok(rd) = std::fs::read_dir(d) {
            let mut es: Vec<_> = rd.flatten().map(|e| e.path()).collect();
            es.sort();
            for p in es {
                if p.is_dir() {
                    walk(&p, files);
                } else if p.extension().map(|e| e == "rs").unwrap_or(false) {
                    files.push(p);
                }
            }
        }
    }
    walk(std::path::Path::new(&tests), &mut files);
    for p in files {
        if let Ok(s) = std::fs::read_to_string(&p) {
            harvest_file(&s, &p.to_string_lossy(), &mut out);
        }
    }
    // rust code blocks of the documentation
    let doc = format!("{repo}/doc/derive_ex.md");
    if let Ok(s) = std::fs::read_to_string(&doc) {
        // fence state: 0 = outside, 1 = inside a rust block, 2 = inside another block
        let mut state = 0;
        let mut block = String::new();
        let mut k = 0;
        for line in s.lines() {
            if line.trim_start().starts_with("```") {
                match state {
                    0 => {
                        let tag = line.trim_start().trim_start_matches('`').trim();
                        state = if tag.is_empty() || tag == "rust" || tag == "compile_fail" { 1 } else { 2 };
                    }
                    1 => {
                        let wrapped = format!("fn __doc() {{ {block} }}");
                        harvest_file(&wrapped, &format!("{doc}#block{k}"), &mut out);
                        harvest_file(&block, &format!("{doc}#block{k}"), &mut out);
                        k += 1;
                        block.clear();
                        state = 0;
                    }
                    _ => state = 0,
                }
                continue;
            }
            if state == 1 {
                let l = line.strip_prefix("# ").unwrap_or(if line == "#" { "" } else { line });
                block.push_str(l);
                block.push('\n');
            }
        }
    }
    // de-duplicate
    let mut seen = HashSet::new();
    let o = std::io::stdout();
    let mut o = o.lock();
    for v in out {
        let k = format!("{}|{}|{}", v["entry"], v["attr"], v["item"]);
        if seen.insert(k) {
            writeln!(o, "{v}").unwrap();
        }
    }
}

// ---------------------------------------------------------------------------
// C16: mutation fuzz loop
// ---------------------------------------------------------------------------

#[derive(Clone)]
struct Rng(u64);
impl Rng {
    fn new(seed: u64) -> Self {
        let mut r = Rng(seed ^ 0x9E37_79B9_7F4A_7C15);
        for _ in 0..4 {
            r.next();
        }
        r
    }
    fn next(&mut self) -> u64 {
        // splitmix64
        self.0 = self.0.wrapping_add(0x9E37_79B9_7F4A_7C15);
        let mut z = self.0;
        z = (z ^ (z >> 30)).wrapping_mul(0xBF58_476D_1CE4_E5B9);
        z = (z ^ (z >> 27)).wrapping_mul(0x94D0_49BB_1331_11EB);
        z ^ (z >> 31)
    }
    fn below(&mut self, n: usize) -> usize {
        if n == 0 {
            0
        } else {
            (self.next() % n as u64) as usize
        }
    }
    fn chance(&mut self, num: u64, den: u64) -> bool {
        self.next() % den < num
    }
}

#[derive(Clone)]
struct Seed {
    entry: Entry,
    attr: String,
    item: String,
}
struct PSeed {
    entry: Entry,
    attr: TokenStream,
    item: TokenStream,
}

/// Mutable tree view of a token stream.
#[derive(Clone)]
enum Node {
    Leaf(TokenTree),
    Group(Delimiter, Vec<Node>),
}
fn to_nodes(ts: TokenStream) -> Vec<Node> {
    ts.into_iter()
        .map(|t| match t {
            TokenTree::Group(g) => Node::Group(g.delimiter(), to_nodes(g.stream())),
            other => Node::Leaf(other),
        })
        .collect()
}
fn from_nodes(ns: &[Node]) -> TokenStream {
    let mut ts = TokenStream::new();
    for n in ns {
        match n {
            Node::Leaf(t) => ts.extend(std::iter::once(t.clone())),
            Node::Group(d, inner) => {
                ts.extend(std::iter::once(TokenTree::Group(Group::new(*d, from_nodes(inner)))))
            }
        }
    }
    ts
}
fn is_punct(n: &Node, c: char) -> bool {
    matches!(n, Node::Leaf(TokenTree::Punct(p)) if p.as_char() == c)
}

/// Paths to every token list (the root and the inside of every group).
fn list_paths(ns: &[Node], cur: &mut Vec<usize>, out: &mut Vec<Vec<usize>>) {
    out.push(cur.clone());
    for (i, n) in ns.iter().enumerate() {
        if let Node::Group(_, inner) = n {
            cur.push(i);
            list_paths(inner, cur, out);
            cur.pop();
        }
    }
}
fn list_at<'a>(ns: &'a mut Vec<Node>, path: &[usize]) -> &'a mut Vec<Node> {
    let mut cur = ns;
    for &i in path {
        match &mut cur[i] {
            Node::Group(_, inner) => cur = inner,
            _ => unreachable!(),
        }
    }
    cur
}

/// Segment a list into "elements": attributes (`#` `[..]`) are one element each,
/// other tokens are grouped up to and including the next top-level comma.
fn segments(list: &[Node]) -> Vec<(usize, usize, bool)> {
    // (start, end_exclusive, is_attribute)
    let mut v = Vec::new();
    let mut i = 0;
    let mut start = 0;
    while i < list.len() {
        if is_punct(&list[i], '#')
            && i + 1 < list.len()
            && matches!(&list[i + 1], Node::Group(Delimiter::Bracket, _))
        {
            if start < i {
                v.push((start, i, false));
            }
            v.push((i, i + 2, true));
            i += 2;
            start = i;
            continue;
        }
        if is_punct(&list[i], ',') {
            v.push((start, i + 1, false));
            start = i + 1;
        }
        i += 1;
    }
    if start < list.len() {
        v.push((start, list.len(), false));
    }
    v
}

fn dict_token(rng: &mut Rng) -> Vec<Node> {
    const IDENTS: &[&str] = &[
        "ignore", "reverse", "key", "by", "bound", "dump", "transparent", "Copy", "Clone", "Debug",
        "Default", "Ord", "PartialOrd", "Eq", "PartialEq", "Hash", "Deref", "DerefMut", "Add",
        "AddAssign", "Sub", "SubAssign", "Neg", "Not", "Mul", "Shl", "ShrAssign", "BitXor", "Index",
        "Ex", "derive_ex", "default", "debug", "ord", "partial_ord", "eq", "partial_eq", "hash",
        "derive", "T", "Self", "self", "_", "__placeholder", "r#type", "r#fn", "Output", "struct",
        "enum", "union", "impl", "for", "where", "pub", "crate", "mut", "const", "fn", "u8", "String",
        "Option", "Vec", "H", "state", "this", "other", "f", "rhs", "lhs", "source", "o", "to_index",
        // identifiers that are not ASCII (byte slicing / case mapping of names goes wrong on these)
        "Ölçü", "名前", "ß", "éq", "Ω", "ǅx", "ﬁeld",
    ];
    match rng.below(12) {
        0 => vec![Node::Leaf(TokenTree::Punct(Punct::new('$', Spacing::Alone)))],
        1 => vec![
            Node::Leaf(TokenTree::Punct(Punct::new('.', Spacing::Joint))),
            Node::Leaf(TokenTree::Punct(Punct::new('.', Spacing::Alone))),
        ],
        2 => vec![Node::Leaf(TokenTree::Literal(Literal::string("abc")))],
        3 => vec![Node::Leaf(TokenTree::Literal(Literal::i32_unsuffixed(5)))],
        4 => vec![Node::Leaf(TokenTree::Punct(Punct::new('=', Spacing::Alone)))],
        5 => vec![Node::Leaf(TokenTree::Punct(Punct::new(',', Spacing::Alone)))],
        6 => vec![Node::Group(Delimiter::Parenthesis, vec![])],
        7 => vec![Node::Leaf(TokenTree::Punct(Punct::new(':', Spacing::Alone)))],
        _ => {
            let s = IDENTS[rng.below(IDENTS.len())];
            let id = if let Some(r) = s.strip_prefix("r#") {
                Ident::new_raw(r, Span::call_site())
            } else if s == "_" {
                return vec![Node::Leaf(TokenTree::Ident(Ident::new("_", Span::call_site())))];
            } else {
                Ident::new(s, Span::call_site())
            };
            vec![Node::Leaf(TokenTree::Ident(id))]
        }
    }
}

fn type_fragment(rng: &mut Rng) -> Vec<Node> {
    const TYPES: &[&str] = &[
        "dyn Tr + Send", "impl Tr + Send", "dyn Tr", "impl Tr", "(dyn Tr + Send)", "&dyn Tr", "&'a (dyn Tr + 'a)",
        "&'a mut T", "&T", "&&T", "*const T", "*mut u8", "[T; 2]", "[u8]", "[T; N]", "(T, u8)", "()", "(T,)", "!",
        "_", "fn(u8) -> u8", "for<'a> fn(&'a u8)", "unsafe extern \"C\" fn()", "<T as Tr>::X", "T::X", "Self::X",
        "Self", "Box<dyn Tr + Send>", "Option<&'a T>", "m!()", "::std::vec::Vec<T>", "dyn for<'a> Fn(&'a u8) -> u8 + Send",
        "dyn ?Sized + Tr", "impl ?Sized", "(T)", "((u8, T), [T; 2])", "Wrap<{ N + 1 }>", "str", "dyn 'static + Tr",
    ];
    to_nodes(TYPES[rng.below(TYPES.len())].parse().unwrap())
}

fn mutate_nodes(ns: &mut Vec<Node>, donor: &[Node], rng: &mut Rng) {
    let mut paths = Vec::new();
    list_paths(ns, &mut Vec::new(), &mut paths);
    let path = paths[rng.below(paths.len())].clone();
    let list = list_at(ns, &path);
    let segs = segments(list);
    let op = rng.below(14);
    match op {
        0 => {
            // delete an element
            if !segs.is_empty() {
                let (s, e, _) = segs[rng.below(segs.len())];
                list.drain(s..e);
            }
        }
        1 => {
            // duplicate an element
            if !segs.is_empty() {
                let (s, e, _) = segs[rng.below(segs.len())];
                let copy: Vec<Node> = list[s..e].to_vec();
                let at = segs[rng.below(segs.len())].0;
                for (k, n) in copy.into_iter().enumerate() {
                    list.insert(at + k, n);
                }
            }
        }
        2 => {
            // swap two elements
            if segs.len() >= 2 {
                let a = rng.below(segs.len());
                let mut b = rng.below(segs.len());
                if a == b {
                    b = (a + 1) % segs.len();
                }
                let (a, b) = if a < b { (a, b) } else { (b, a) };
                let (s1, e1, _) = segs[a];
                let (s2, e2, _) = segs[b];
                let second: Vec<Node> = list[s2..e2].to_vec();
                let first: Vec<Node> = list[s1..e1].to_vec();
                list.splice(s2..e2, first);
                list.splice(s1..e1, second);
            }
        }
        3 | 4 => {
            // splice an element from a donor list (same shape of position if possible)
            let mut dpaths = Vec::new();
            list_paths(donor, &mut Vec::new(), &mut dpaths);
            let dp = dpaths[rng.below(dpaths.len())].clone();
            let mut dl: &[Node] = donor;
            for &i in &dp {
                if let Node::Group(_, inner) = &dl[i] {
                    dl = inner;
                }
            }
            let dsegs = segments(dl);
            if !dsegs.is_empty() {
                let (ds, de, _) = dsegs[rng.below(dsegs.len())];
                let piece: Vec<Node> = dl[ds..de].to_vec();
                if !segs.is_empty() && op == 3 {
                    let (s, e, _) = segs[rng.below(segs.len())];
                    list.splice(s..e, piece);
                } else {
                    let at = if segs.is_empty() { 0 } else { segs[rng.below(segs.len())].0 };
                    for (k, n) in piece.into_iter().enumerate() {
                        list.insert(at + k, n);
                    }
                }
            }
        }
        5 => {
            // delete a single token
            if !list.is_empty() {
                let i = rng.below(list.len());
                list.remove(i);
            }
        }
        6 => {
            // insert dictionary token
            let at = rng.below(list.len() + 1);
            for (k, n) in dict_token(rng).into_iter().enumerate() {
                list.insert(at + k, n);
            }
        }
        7 => {
            // replace a leaf by a dictionary token
            let leaves: Vec<usize> = list
                .iter()
                .enumerate()
                .filter(|(_, n)| matches!(n, Node::Leaf(TokenTree::Ident(_)) | Node::Leaf(TokenTree::Literal(_))))
                .map(|(i, _)| i)
                .collect();
            if !leaves.is_empty() {
                let i = leaves[rng.below(leaves.len())];
                let d = dict_token(rng);
                list.splice(i..i + 1, d);
            }
        }
        8 => {
            // move an attribute to another attribute position anywhere in the tree
            let attrs: Vec<(usize, usize)> = segs.iter().filter(|s| s.2).map(|s| (s.0, s.1)).collect();
            if !attrs.is_empty() {
                let (s, e) = attrs[rng.below(attrs.len())];
                let piece: Vec<Node> = list.drain(s..e).collect();
                let mut paths2 = Vec::new();
                list_paths(ns, &mut Vec::new(), &mut paths2);
                let p2 = paths2[rng.below(paths2.len())].clone();
                let l2 = list_at(ns, &p2);
                let segs2 = segments(l2);
                let at = if segs2.is_empty() { 0 } else { segs2[rng.below(segs2.len())].0 };
                for (k, n) in piece.into_iter().enumerate() {
                    l2.insert(at + k, n);
                }
            }
        }
        9 => {
            // change the item keyword / delimiter kind
            for n in list.iter_mut() {
                if let Node::Leaf(TokenTree::Ident(i)) = n {
                    let s = i.to_string();
                    let to = match s.as_str() {
                        "struct" => ["enum", "union", "trait"][rng.below(3)],
                        "enum" => ["struct", "union", "mod"][rng.below(3)],
                        "impl" => ["trait", "struct"][rng.below(2)],
                        _ => continue,
                    };
                    *n = Node::Leaf(TokenTree::Ident(Ident::new(to, Span::call_site())));
                    break;
                }
            }
        }
        11 => {
            // replace an identifier by a multi-token type (types in impl headers and generic arguments are not
            // comma-separated elements, so the element operators above cannot put e.g. `dyn A + B` there)
            let leaves: Vec<usize> = list
                .iter()
                .enumerate()
                .filter(|(_, n)| matches!(n, Node::Leaf(TokenTree::Ident(_))))
                .map(|(i, _)| i)
                .collect();
            if !leaves.is_empty() {
                let i = leaves[rng.below(leaves.len())];
                let frag = type_fragment(rng);
                list.splice(i..i + 1, frag);
            }
        }
        12 => {
            // decorate an identifier as a type: prefix (`dyn`, `impl`, `&`, `&mut`, `*const`, `&'a`) or suffix (`+ Bound`, `<T>`, `::X`)
            let leaves: Vec<usize> = list
                .iter()
                .enumerate()
                .filter(|(_, n)| matches!(n, Node::Leaf(TokenTree::Ident(_))))
                .map(|(i, _)| i)
                .collect();
            if !leaves.is_empty() {
                let i = leaves[rng.below(leaves.len())];
                const PRE: &[&str] = &["dyn", "impl", "&", "&mut", "*const", "&'a", "&'static mut", "dyn for<'a>", "?"];
                const POST: &[&str] = &["+ Send", "+ 'static", "+ ?Sized", "+ Tr<u8>", "<T>", "::X", "<'a, T, 2>", "!()", "+"];
                if rng.chance(1, 2) {
                    let frag = to_nodes(PRE[rng.below(PRE.len())].parse().unwrap());
                    for (k, n) in frag.into_iter().enumerate() {
                        list.insert(i + k, n);
                    }
                } else {
                    let frag = to_nodes(POST[rng.below(POST.len())].parse().unwrap());
                    for (k, n) in frag.into_iter().enumerate() {
                        list.insert(i + 1 + k, n);
                    }
                }
            }
        }
        _ => {
            // change a group's delimiter
            let groups: Vec<usize> = list
                .iter()
                .enumerate()
                .filter(|(_, n)| matches!(n, Node::Group(..)))
                .map(|(i, _)| i)
                .collect();
            if !groups.is_empty() {
                let i = groups[rng.below(groups.len())];
                if let Node::Group(d, _) = &mut list[i] {
                    *d = match rng.below(3) {
                        0 => Delimiter::Parenthesis,
                        1 => Delimiter::Brace,
                        _ => Delimiter::Bracket,
                    };
                }
            }
        }
    }
}

fn load_seeds(path: &str) -> Vec<Seed> {
    let mut v = Vec::new();
    let mut s = String::new();
    if std::fs::File::open(path).and_then(|mut f| f.read_to_string(&mut s)).is_err() {
        return v;
    }
    for l in s.lines() {
        let Ok(j) = serde_json::from_str::<Value>(l) else { continue };
        let entry = if j["entry"] == "derive" { Entry::Derive } else { Entry::Attr };
        let attr = j["attr"].as_str().unwrap_or("").to_string();
        let item = j["item"].as_str().unwrap_or("").to_string();
        if TokenStream::from_str(&attr).is_err() || TokenStream::from_str(&item).is_err() {
            continue;
        }
        v.push(Seed { entry, attr, item });
    }
    v
}

struct Finding {
    kind: &'static str,
    entry: Entry,
    attr: String,
    item: String,
    detail: String,
}

fn check_one(entry: Entry, attr: &TokenStream, item: &TokenStream) -> (Option<Finding>, String) {
    check_with(&run_once, entry, attr, item)
}

fn check_with(
    run_once: &dyn Fn(Entry, &TokenStream, &TokenStream) -> Outcome,
    entry: Entry,
    attr: &TokenStream,
    item: &TokenStream,
) -> (Option<Finding>, String) {
    // returns (violation, outcome class)
    let mk = |kind: &'static str, detail: String| Finding {
        kind,
        entry,
        attr: attr.to_string(),
        item: item.to_string(),
        detail,
    };
    let out = match run_once(entry, attr, item) {
        Outcome::Ok(t) => t,
        Outcome::Panic(m) => {
            let class = format!("panic:{}", m.chars().take(60).collect::<String>());
            return (Some(mk("panic", m)), class);
        }
    };
    let s1 = out.to_string();
    let f = match syn::parse2::<syn::File>(out) {
        Ok(f) => f,
        Err(e) => return (Some(mk("output-not-items", format!("{e}: {s1}"))), "unparseable".into()),
    };
    let mut class = String::new();
    let mut bad = None;
    for it in &f.items {
        match it {
            syn::Item::Macro(m) => match compile_error_msg(m) {
                Some(Some(msg)) => {
                    if msg.trim().is_empty() {
                        bad = Some(mk("empty-error-message", s1.clone()));
                    }
                    class.push_str("E:");
                    class.push_str(&msg.chars().take(24).collect::<String>());
                    class.push(';');
                }
                Some(None) => {
                    bad = Some(mk("compile-error-without-message", s1.clone()));
                    class.push_str("E?;");
                }
                None => class.push_str("m;"),
            },
            syn::Item::Impl(i) => {
                class.push_str("i:");
                if let Some((_, p, _)) = &i.trait_ {
                    class.push_str(&path_last(p).0);
                }
                class.push(';');
            }
            syn::Item::Struct(_) => class.push_str("s;"),
            syn::Item::Enum(_) => class.push_str("e;"),
            syn::Item::Const(_) => class.push_str("c;"),
            _ => class.push_str("o;"),
        }
    }
    if bad.is_some() {
        return (bad, class);
    }
    match run_once(entry, attr, item) {
        Outcome::Ok(t2) => {
            let s2 = t2.to_string();
            if s2 != s1 {
                return (Some(mk("nondeterministic", format!("first: {s1}\nsecond: {s2}"))), class);
            }
        }
        Outcome::Panic(m) => return (Some(mk("panic-on-second-run", m)), class),
    }
    (None, class)
}

fn mode_fuzz(args: &[String]) {
    let seeds_path = &args[0];
    let seed: u64 = args[1].parse().unwrap();
    let count: u64 = args[2].parse().unwrap();
    let threads: usize = args[3].parse().unwrap();
    let mut seeds = load_seeds(seeds_path);
    if let Some(extra) = args.get(4) {
        seeds.extend(load_seeds(extra));
    }
    if seeds.is_empty() {
        println!("{}", json!({"error":"no seeds"}));
        std::process::exit(2);
    }
    let seeds = Arc::new(seeds);
    let executed = Arc::new(AtomicU64::new(0));
    let rejected = Arc::new(AtomicU64::new(0));
    let attempts = Arc::new(AtomicU64::new(0));
    let findings: Arc<Mutex<Vec<Finding>>> = Arc::new(Mutex::new(Vec::new()));
    let classes: Arc<Mutex<BTreeMap<String, u64>>> = Arc::new(Mutex::new(BTreeMap::new()));
    let samples: Arc<Mutex<Vec<Value>>> = Arc::new(Mutex::new(Vec::new()));
    // watchdog state: per worker (start nanos since t0, current input)
    let t0 = Instant::now();
    let starts: Arc<Vec<AtomicU64>> = Arc::new((0..threads).map(|_| AtomicU64::new(0)).collect());
    let currents: Arc<Vec<Mutex<String>>> = Arc::new((0..threads).map(|_| Mutex::new(String::new())).collect());
    let done = Arc::new(AtomicUsize::new(0));
    {
        let starts = starts.clone();
        let currents = currents.clone();
        let done = done.clone();
        std::thread::spawn(move || loop {
            std::thread::sleep(Duration::from_millis(500));
            if done.load(Ordering::Relaxed) == starts.len() {
                return;
            }
            let now = t0.elapsed().as_millis() as u64;
            for (w, s) in starts.iter().enumerate() {
                let st = s.load(Ordering::Relaxed);
                if st != 0 && now.saturating_sub(st) > 20_000 {
                    let cur = currents[w].lock().unwrap().clone();
                    println!("{}", json!({"watchdog": true, "input": cur}));
                    std::process::exit(3);
                }
            }
        });
    }
    let per = count / threads as u64 + 1;
    let mut hs = Vec::new();
    for w in 0..threads {
        let seeds = seeds.clone();
        let executed = executed.clone();
        let rejected = rejected.clone();
        let attempts = attempts.clone();
        let findings = findings.clone();
        let classes = classes.clone();
        let samples = samples.clone();
        let starts = starts.clone();
        let currents = currents.clone();
        let done = done.clone();
        hs.push(
            std::thread::Builder::new()
                .stack_size(256 << 20)
                .spawn(move || {
                    let mut rng = Rng::new(seed.wrapping_mul(1000003).wrapping_add(w as u64));
                    let seeds: Vec<PSeed> = seeds
                        .iter()
                        .map(|s| PSeed {
                            entry: s.entry,
                            attr: TokenStream::from_str(&s.attr).unwrap(),
                            item: TokenStream::from_str(&s.item).unwrap(),
                        })
                        .collect();
                    let mut local_classes: BTreeMap<String, u64> = BTreeMap::new();
                    let mut n = 0u64;
                    // phase 0: every seed unmodified, both entries where the shape allows it
                    if w == 0 {
                        for s in seeds.iter() {
                            let (f, c) = check_one(s.entry, &s.attr, &s.item);
                            *local_classes.entry(c).or_default() += 1;
                            executed.fetch_add(1, Ordering::Relaxed);
                            if let Some(f) = f {
                                findings.lock().unwrap().push(f);
                            }
                        }
                    }
                    while n < per {
                        attempts.fetch_add(1, Ordering::Relaxed);
                        let base = &seeds[rng.below(seeds.len())];
                        let donor = &seeds[rng.below(seeds.len())];
                        let mut item = to_nodes(base.item.clone());
                        let mut attr = to_nodes(base.attr.clone());
                        let donor_item = to_nodes(donor.item.clone());
                        let donor_attr = to_nodes(donor.attr.clone());
                        let k = 1 + rng.below(3);
                        let mut entry = base.entry;
                        for _ in 0..k {
                            if entry == Entry::Attr && rng.chance(1, 3) {
                                let d = if rng.chance(1, 2) { &donor_attr } else { &donor_item };
                                mutate_nodes(&mut attr, d, &mut rng);
                            } else {
                                let d = if rng.chance(3, 4) { &donor_item } else { &donor_attr };
                                mutate_nodes(&mut item, d, &mut rng);
                            }
                        }
                        // occasionally flip the entry point: attr args become a #[derive_ex(..)] attribute and back
                        if rng.chance(1, 6) {
                            match entry {
                                Entry::Attr => {
                                    let a = from_nodes(&attr);
                                    let it = from_nodes(&item);
                                    let ts: TokenStream = quote::quote!(#[derive_ex(#a)] #it);
                                    item = to_nodes(ts);
                                    attr.clear();
                                    entry = Entry::Derive;
                                }
                                Entry::Derive => {
                                    entry = Entry::Attr;
                                }
                            }
                        }
                        let item_ts = from_nodes(&item);
                        let attr_ts = from_nodes(&attr);
                        // domain of the property: syntactically valid items
                        let valid = match entry {
                            Entry::Attr => syn::parse2::<syn::Item>(item_ts.clone()).is_ok(),
                            Entry::Derive => syn::parse2::<syn::DeriveInput>(item_ts.clone()).is_ok(),
                        };
                        if !valid {
                            rejected.fetch_add(1, Ordering::Relaxed);
                            continue;
                        }
                        *currents[w].lock().unwrap() = format!("{:?} #[derive_ex({})] {}", entry, attr_ts, item_ts);
                        starts[w].store(t0.elapsed().as_millis() as u64 + 1, Ordering::Relaxed);
                        let (f, c) = check_one(entry, &attr_ts, &item_ts);
                        starts[w].store(0, Ordering::Relaxed);
                        n += 1;
                        executed.fetch_add(1, Ordering::Relaxed);
                        *local_classes.entry(c).or_default() += 1;
                        if n % 4096 == 1 && w < 4 {
                            let mut s = samples.lock().unwrap();
                            if s.len() < 8 {
                                s.push(json!({"entry": format!("{entry:?}"), "attr": attr_ts.to_string(), "item": item_ts.to_string()}));
                            }
                        }
                        if let Some(f) = f {
                            let mut fs = findings.lock().unwrap();
                            if fs.len() < 200 {
                                fs.push(f);
                            }
                        }
                    }
                    let mut cl = classes.lock().unwrap();
                    for (k, v) in local_classes {
                        *cl.entry(k).or_default() += v;
                    }
                    done.fetch_add(1, Ordering::Relaxed);
                })
                .unwrap(),
        );
    }
    for h in hs {
        let _ = h.join();
    }
    let fs = findings.lock().unwrap();
    let fv: Vec<Value> = fs
        .iter()
        .map(|f| json!({"kind": f.kind, "entry": if f.entry==Entry::Attr {"attr"} else {"derive"}, "attr": f.attr, "item": f.item, "detail": f.detail}))
        .collect();
    let cl = classes.lock().unwrap();
    let mut top: Vec<(&String, &u64)> = cl.iter().collect();
    top.sort_by(|a, b| b.1.cmp(a.1));
    let topv: Vec<Value> = top.iter().take(25).map(|(k, v)| json!([k, v])).collect();
    println!(
        "{}",
        json!({
            "seeds": seeds.len(),
            "executed": executed.load(Ordering::Relaxed),
            "rejected_unparseable": rejected.load(Ordering::Relaxed),
            "attempts": attempts.load(Ordering::Relaxed),
            "distinct_outcome_classes": cl.len(),
            "top_classes": topv,
            "samples": *samples.lock().unwrap(),
            "findings": fv,
        })
    );
}

/// Canary for the C16 monitor: run it over deliberately broken fake expanders and report
/// which kinds of finding it raised.
fn mode_selftest() {
    use std::cell::Cell;
    let attr = TokenStream::new();
    let item = TokenStream::from_str("struct X;").unwrap();
    let fake = |f: &dyn Fn() -> TokenStream| -> Outcome {
        match catch_unwind(AssertUnwindSafe(f)) {
            Ok(t) => Outcome::Ok(t),
            Err(_) => Outcome::Panic(LAST_PANIC.with(|p| p.borrow().clone())),
        }
    };
    let mut kinds = Vec::new();
    let mut rec = |r: (Option<Finding>, String)| kinds.push(r.0.map(|f| f.kind).unwrap_or("none"));
    rec(check_with(&|_, _, _| fake(&|| panic!("boom")), Entry::Attr, &attr, &item));
    rec(check_with(&|_, _, _| fake(&|| TokenStream::from_str("struct").unwrap()), Entry::Attr, &attr, &item));
    rec(check_with(&|_, _, _| fake(&|| TokenStream::from_str("::core::compile_error!{\"\"}").unwrap()), Entry::Attr, &attr, &item));
    let n = Cell::new(0);
    rec(check_with(
        &|_, _, _| {
            n.set(n.get() + 1);
            let k = n.get();
            fake(&|| TokenStream::from_str(&format!("struct S{k};")).unwrap())
        },
        Entry::Attr,
        &attr,
        &item,
    ));
    rec(check_with(&|_, _, _| fake(&|| TokenStream::from_str("struct Fine;").unwrap()), Entry::Attr, &attr, &item));
    println!("{}", json!({"kinds": kinds}));
}

// ---------------------------------------------------------------------------
// minimisation of a C16 finding (greedy delta debugging on the token tree)
// ---------------------------------------------------------------------------

fn finding_class(entry: Entry, attr: &TokenStream, item: &TokenStream) -> Option<String> {
    let valid = match entry {
        Entry::Attr => syn::parse2::<syn::Item>(item.clone()).is_ok(),
        Entry::Derive => syn::parse2::<syn::DeriveInput>(item.clone()).is_ok(),
    };
    if !valid {
        return None;
    }
    let (f, _) = check_one(entry, attr, item);
    f.map(|f| match f.kind {
        "panic" | "panic-on-second-run" => {
            // message + location
            format!("{}|{}", f.kind, f.detail)
        }
        "output-not-items" => {
            let msg = f.detail.split(':').next().unwrap_or("").to_string();
            format!("{}|{}", f.kind, msg)
        }
        k => k.to_string(),
    })
}

fn try_shrink(
    which: usize, // 0 = attr, 1 = item
    attr: &mut Vec<Node>,
    item: &mut Vec<Node>,
    entry: Entry,
    class: &str,
) -> bool {
    let mut changed = false;
    loop {
        let mut progress = false;
        let mut paths = Vec::new();
        {
            let t = if which == 0 { &*attr } else { &*item };
            list_paths(t, &mut Vec::new(), &mut paths);
        }
        'outer: for path in paths {
            // candidates: whole segments first, then single tokens, then group unwrapping
            let (nseg, ntok) = {
                let t = if which == 0 { &mut *attr } else { &mut *item };
                let l = list_at(t, &path);
                (segments(l).len(), l.len())
            };
            for mode in 0..3 {
                let n = match mode {
                    0 => nseg,
                    _ => ntok,
                };
                for i in (0..n).rev() {
                    let mut a2 = attr.clone();
                    let mut i2 = item.clone();
                    {
                        let t = if which == 0 { &mut a2 } else { &mut i2 };
                        let l = list_at(t, &path);
                        match mode {
                            0 => {
                                let segs = segments(l);
                                if i >= segs.len() {
                                    continue;
                                }
                                let (s, e, _) = segs[i];
                                l.drain(s..e);
                            }
                            1 => {
                                if i >= l.len() {
                                    continue;
                                }
                                l.remove(i);
                            }
                            _ => {
                                if i >= l.len() {
                                    continue;
                                }
                                if let Node::Group(_, inner) = l[i].clone() {
                                    l.splice(i..i + 1, inner);
                                } else {
                                    continue;
                                }
                            }
                        }
                    }
                    let ats = from_nodes(&a2);
                    let its = from_nodes(&i2);
                    if finding_class(entry, &ats, &its).as_deref() == Some(class) {
                        *attr = a2;
                        *item = i2;
                        progress = true;
                        changed = true;
                        break 'outer;
                    }
                }
            }
        }
        if !progress {
            break;
        }
    }
    changed
}

fn normalize_idents(ts: TokenStream, map: &mut BTreeMap<String, String>) -> TokenStream {
    const KEEP: &[&str] = &[
        "struct", "enum", "union", "impl", "for", "where", "pub", "crate", "fn", "const", "mut", "dyn", "Self", "self",
        "derive_ex", "derive", "Ex", "ord", "partial_ord", "eq", "partial_eq", "hash", "debug", "default", "ignore",
        "reverse", "key", "by", "bound", "dump", "transparent", "Copy", "Clone", "Debug", "Default", "Ord", "PartialOrd",
        "Eq", "PartialEq", "Hash", "Deref", "DerefMut", "Neg", "Not", "Output", "type", "as", "in", "super", "_",
        "__placeholder",
    ];
    let mut out = TokenStream::new();
    for t in ts {
        match t {
            TokenTree::Group(g) => out.extend(std::iter::once(TokenTree::Group(Group::new(
                g.delimiter(),
                normalize_idents(g.stream(), map),
            )))),
            TokenTree::Ident(i) => {
                let s = i.to_string();
                let base = s.strip_suffix("Assign").unwrap_or(&s);
                if KEEP.contains(&s.as_str()) || crate_binop(base) || s.starts_with("r#") {
                    out.extend(std::iter::once(TokenTree::Ident(i)));
                } else {
                    let n = map.len();
                    let m = map.entry(s).or_insert_with(|| format!("a{n}")).clone();
                    out.extend(std::iter::once(TokenTree::Ident(Ident::new(&m, Span::call_site()))));
                }
            }
            TokenTree::Literal(l) => {
                let s = l.to_string();
                if s.starts_with('"') {
                    out.extend(std::iter::once(TokenTree::Literal(Literal::string("s"))));
                } else {
                    out.extend(std::iter::once(TokenTree::Literal(Literal::i32_unsuffixed(0))));
                }
            }
            p => out.extend(std::iter::once(p)),
        }
    }
    out
}
fn crate_binop(s: &str) -> bool {
    matches!(s, "Add" | "BitAnd" | "BitOr" | "BitXor" | "Div" | "Mul" | "Rem" | "Shl" | "Shr" | "Sub")
}

fn mode_minimize() {
    let mut s = String::new();
    std::io::stdin().read_to_string(&mut s).unwrap();
    let j: Value = serde_json::from_str(&s).unwrap();
    let entry = if j["entry"] == "derive" { Entry::Derive } else { Entry::Attr };
    let attr = TokenStream::from_str(j["attr"].as_str().unwrap_or("")).unwrap();
    let item = TokenStream::from_str(j["item"].as_str().unwrap_or("")).unwrap();
    let Some(class) = finding_class(entry, &attr, &item) else {
        println!("{}", json!({"reproduced": false}));
        return;
    };
    let mut a = to_nodes(attr);
    let mut i = to_nodes(item);
    loop {
        let c1 = try_shrink(1, &mut a, &mut i, entry, &class);
        let c0 = try_shrink(0, &mut a, &mut i, entry, &class);
        if !c0 && !c1 {
            break;
        }
    }
    let ats = from_nodes(&a);
    let its = from_nodes(&i);
    let mut map = BTreeMap::new();
    let na = normalize_idents(ats.clone(), &mut map);
    let ni = normalize_idents(its.clone(), &mut map);
    println!(
        "{}",
        json!({"reproduced": true, "class": class, "attr": ats.to_string(), "item": its.to_string(),
               "norm": format!("{} #[derive_ex({})] {}", if entry == Entry::Attr {"attr"} else {"derive"}, na, ni)})
    );
}
